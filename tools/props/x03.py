"""X03 - Log lines are the format expansion of the message; level filter and routing; utc calendar of Time."""
import json
import os
import vlib
from vlib import hexs

SPECDIR = os.path.join(vlib.SPEC, "text")
SRCS = ["src/Log.cpp", "src/Time.cpp", "src/Console.cpp", "src/Mutex.cpp", "src/Process.cpp", "src/Thread.cpp",
        "src/Memory.cpp", "src/String.cpp", "src/Debug.cpp", "src/Error.cpp", "src/Monitor.cpp", "src/Signal.cpp",
        "src/Semaphore.cpp", "src/System.cpp"]
CYCLE = 146097
I64_MAX = 2 ** 63 - 1
DEFAULT_FMT = b"[%t] %L: %m"
DEFAULT_TFMT = b"%H:%M:%S"


def build():
    return vlib.build("drv_logtime", ["logtime/drv_logtime.cpp"], SRCS)


def hx(b):
    return hexs(list(b))


def unhx(tok):
    return bytes.fromhex(tok[1:])


# ---------------------------------------------------------------------------------------------
# input selection helpers (they choose inputs and classify failing steps; verdicts come from TLC)

def printf_len(mfmt, s1, d, s2):
    """(length of the expansion, number of conversions) for the %s %d %s subset."""
    args = [s1, ("%d" % d).encode(), s2]
    n = k = i = 0
    while i < len(mfmt):
        if mfmt[i] == 37 and i + 1 < len(mfmt):
            if mfmt[i + 1] == 37:
                n += 1
            else:
                n += len(args[k]) if k < 3 else 0
                k += 1
            i += 2
        else:
            n += 1
            i += 1
    return n, k


def ends_with_lone_percent(fmt):
    i = 0
    while i < len(fmt):
        if fmt[i] == 37:
            if i + 1 >= len(fmt):
                return True
            i += 2
        else:
            i += 1
    return False


def key_of(ops, step):
    """Signature of a failing step: the operation and, for Log, the precondition that matters."""
    if not (0 < step <= len(ops)):
        return "X03.?"
    t = ops[step - 1].split()
    if t[0] != "log":
        return ("Log." if t[0] in ("setformat", "setlevel") else "Time.") + t[0]
    fmt = DEFAULT_FMT
    for o in ops[:step - 1]:
        if o.startswith("setformat "):
            fmt = unhx(o.split()[1])
    n, k = printf_len(unhx(t[3]), unhx(t[4]), int(t[5]), unhx(t[6]))
    if n >= 200 and k > 0:
        return "Log.logf:longMessageWithArguments"
    if ends_with_lone_percent(fmt):
        return "Log.logf:formatEndsWithPercent"
    return "Log.logf"


LINE_PIECES = [b"%m", b"%m", b"%L", b"%t", b"%P", b"%T", b"%%", b"%l", b"%q", b"%x", b"%M", b"a", b" ", b"[", b"]", b": ",
               b"-", b"log", b"%m%m", b"%%%m", b"%L%t"]
TIME_PIECES = [b"%H", b"%M", b"%S", b"%Y", b"%m", b"%d", b"%j", b"%w", b"%%", b":", b"-", b" ", b"T", b"."]
LEVELS = [-1, 0, 5, 9, 10, 11, 19, 20, 21, 25, 29, 30, 31, 35, 39, 40, 41, 45, 49, 50, 51, 60, 1000]
PRINTABLE = bytes(range(32, 127)).replace(b"%", b"") + bytes([128, 200, 255, 9])


def rand_bytes(rng, n):
    return bytes(rng.choice(PRINTABLE) for _ in range(n))


def rand_linefmt(rng):
    k = rng.random()
    if k < 0.06:
        return DEFAULT_FMT
    f = b"".join(rng.choice(LINE_PIECES) for _ in range(rng.choice([0, 1, 1, 2, 3, 4, 6])))
    if k > 0.96:
        f += b"%"            # a lone percent sign at the end (or a doubled one, depending on what precedes)
    if 0.90 < k < 0.93:
        f += rand_bytes(rng, rng.choice([30, 200, 400]))     # long literal formats: the line buffer has to grow
    return f


def rand_timefmt(rng):
    k = rng.random()
    if k < 0.12:
        return b""
    if k < 0.3:
        return DEFAULT_TFMT
    return b"".join(rng.choice(TIME_PIECES) for _ in range(rng.choice([1, 2, 3, 5, 8])))


def rand_log(rng, level=None):
    level = rng.choice(LEVELS) if level is None else level
    convs = [b"%s", b"%d", b"%s"][:rng.choice([0, 0, 1, 2, 3, 3])]
    parts = []
    for c in convs:
        parts.append(rng.choice([b"", b"", b"msg ", b"=", b"%%", b"a b"]))
        parts.append(c)
    parts.append(rng.choice([b"", b"", b".", b" end", b"%%", b"text"]))
    mfmt = b"".join(parts)
    k = rng.random()
    s1 = rand_bytes(rng, rng.choice([0, 1, 2, 5]))
    s2 = rand_bytes(rng, rng.choice([0, 1, 3]))
    d = rng.choice([0, 1, -1, 42, -7, 1000000, 2147483647, -2147483647, rng.randint(-99999, 99999)])
    if k < 0.10 and not convs:
        mfmt += rand_bytes(rng, rng.choice([150, 195, 199, 200, 201, 260, 520]))   # long literal message, no arguments
    elif k < 0.30 and convs:
        # aim the expansion at the boundary of the 200 byte first attempt, or far beyond it
        target = rng.choice([197, 198, 199, 200, 201, 202, 256, 400, 401, 700, 1500])
        n, _ = printf_len(mfmt, s1, d, s2)
        grow = max(0, target - n)
        if len(convs) == 3 and rng.random() < 0.5:
            s2 += rand_bytes(rng, grow)
        else:
            s1 += rand_bytes(rng, grow)
    api = 1 if (level in (10, 20, 30, 40) and rng.random() < 0.5) else (2 if rng.random() < 0.2 else 0)
    return "log %d %d %s %s %d %s" % (level, api, hx(mfmt), hx(s1), d, hx(s2))


def rand_log_exec(rng, nops):
    ops = []
    for _ in range(nops):
        k = rng.random()
        if k < 0.22:
            ops.append("setformat %s %s" % (hx(rand_linefmt(rng)), hx(rand_timefmt(rng))))
        elif k < 0.34:
            ops.append("setlevel %d" % rng.choice(LEVELS))
        else:
            ops.append(rand_log(rng))
    return ops


# calendar
def is_leap(y):
    return (y % 4 == 0 and y % 100 != 0) or y % 400 == 0


def dim(y, m):
    return 29 if (m == 2 and is_leap(y)) else [31, 28, 31, 30, 31, 30, 31, 31, 30, 31, 30, 31][m - 1]


def days_from_civil(y, m, d):
    y -= m <= 2
    era = y // 400
    yoe = y - era * 400
    doy = (153 * (m - 3 if m > 2 else m + 9) + 2) // 5 + d - 1
    doe = yoe * 365 + yoe // 4 - yoe // 100 + doy
    return era * CYCLE + doe - 719468


def special_days():
    """Offsets inside the 400-year cycle 1970..2369 around month / year / century ends."""
    out = []
    for y in [1970, 1971, 1972, 1999, 2000, 2001, 2004, 2038, 2096, 2099, 2100, 2101, 2104, 2199, 2200, 2201, 2299, 2300, 2301,
              2368, 2369]:
        for (m, d) in [(1, 1), (1, 31), (2, 28), (3, 1), (6, 30), (7, 1), (12, 31)]:
            n = days_from_civil(y, m, d)
            out += [n - 1, n, n + 1]
    return [n % CYCLE for n in out]


SPECIAL_R = special_days()
SODS = [0, 1, 59, 60, 61, 3599, 3600, 43199, 43200, 86340, 86398, 86399]
MSS = [0, 0, 1, 500, 999]


def rand_stamp(rng):
    while True:
        q = rng.choice([0, 0, 0, -1, -1, 1, -5, -6, 5, 20, -730692, 730691, rng.randint(-730692, 730691), rng.randint(-30, 30)])
        r = rng.choice(SPECIAL_R) if rng.random() < 0.5 else rng.randint(0, CYCLE - 1)
        sod = rng.choice(SODS) if rng.random() < 0.5 else rng.randint(0, 86399)
        ms = rng.choice(MSS) if rng.random() < 0.7 else rng.randint(0, 999)
        t = ((q * CYCLE + r) * 86400 + sod) * 1000 + ms
        if -I64_MAX - 1 <= t <= I64_MAX:
            return q, r, sod, ms


def rand_cal_exec(rng, nops):
    ops = []
    for _ in range(nops):
        k = rng.random()
        if k < 0.55:
            ops.append("time %d %d %d %d" % rand_stamp(rng))
        elif k < 0.80:
            y = rng.choice([1970, 1969, 2000, 1900, 2100, 2400, 0, -1, 1, -400, 9999, 10000, rng.randint(-292000000, 292000000),
                            rng.randint(1600, 2500)])
            m = rng.randint(1, 12)
            d = rng.choice([1, dim(y, m), rng.randint(1, dim(y, m))])
            if rng.random() < 0.05:
                d = 31 if dim(y, m) < 31 else 32          # not a date: outside the judged domain (timegm normalises it)
            n = days_from_civil(y, m, min(d, dim(y, m)))
            wd = (n + 4) % 7
            yd = n - days_from_civil(y, 1, 1)
            ops.append("mk %d %d %d %d %d %d %d %d" % (y, m, d, rng.randint(0, 23), rng.randint(0, 59), rng.randint(0, 59), wd, yd))
        else:
            q, r, sod, ms = rand_stamp(rng)
            q = rng.choice([0, 0, 1, -1, -2, 10, 20])
            fmt = b"".join(rng.choice(TIME_PIECES) for _ in range(rng.choice([0, 1, 2, 4, 9])))
            ops.append("str %d %d %d %d %s" % (q, r, sod, ms, hx(fmt)))
    return ops


# ---------------------------------------------------------------------------------------------

def check_log(ctx, binary, executions, tag):
    bad = vlib.check_executions(ctx, binary, executions, tag, SPECDIR, "LogLineTrace", "LogLineTrace.cfg", key_of)
    tally_trace(ctx, os.path.join(ctx.work, "trace_%s.ndjson" % tag))
    return bad


def check_cal(ctx, binary, executions, tag):
    return vlib.check_executions(ctx, binary, executions, tag, SPECDIR, "CalendarTrace", "CalendarTrace.cfg", key_of)


def tally_trace(ctx, path):
    """Vacuity counters over what the real code did (notes only)."""
    c = ctx.notes.setdefault("log_events", {"calls": 0, "filtered": 0, "stdout": 0, "stderr": 0, "long_lines": 0})
    try:
        with open(path) as f:
            for line in f:
                if '"op":"log"' not in line:
                    continue
                e = json.loads(line)
                c["calls"] += 1
                if e["out"]:
                    c["stdout"] += 1
                elif e["err"]:
                    c["stderr"] += 1
                else:
                    c["filtered"] += 1
                if len(e["out"]) + len(e["err"]) > 400:
                    c["long_lines"] += 1
    except (OSError, ValueError):
        pass


def log_label_to_op(rng, name, args):
    op, f, n, m = args
    if op == "setformat":
        return "setformat %s %s" % (hexs(f), hx(DEFAULT_TFMT))
    if op == "setlevel":
        return "setlevel %d" % n
    api = 1 if (n in (10, 20, 30, 40) and rng.random() < 0.5) else (2 if rng.random() < 0.1 else 0)
    if m == 1:
        return "log %d %d x78 x 0 x" % (n, api)
    return "log %d %d %s x6b 42 x" % (n, api, hx(b"%s=%d"))


def run(ctx):
    binary = build()
    rng = ctx.rng
    # ---- calendar -------------------------------------------------------------------------------------------------
    # 1. the definition (day-by-day successor) against the closed forms, one full 400-year cycle in both directions
    dot = os.path.join(ctx.work, "cal.dot")
    if ctx.quick:
        r = vlib.tlc(SPECDIR, "Calendar", "Calendar.cfg", workers=2, timeout=600)
        ctx.add_tlc("Calendar", r)
        r = vlib.tlc(SPECDIR, "Calendar", "Calendar_quick.cfg", workers=2, timeout=600, dump=dot)
        ctx.add_tlc("Calendar(graph)", r)
    else:
        r = vlib.tlc(SPECDIR, "Calendar", "Calendar.cfg", workers=4, timeout=1200, dump=dot, xmx="6g")
        ctx.add_tlc("Calendar", r)
    if r.ok:
        # the graph is a line: one walk covers every next and every prev edge; cut it into executions that start
        # with "seek <day>"
        walks, nedges = vlib.graph_walks(dot, max_len=10 ** 7, seed=ctx.seed)
        os.remove(dot)
        ctx.notes["calendar_graph_edges_replayed"] = nedges
        execs = []
        for w in walks:
            cur = 0
            ex = []
            for name, args in w:
                if len(ex) >= 3000:
                    execs.append(ex)
                    ex = ["seek %d" % cur]
                cur += 1 if args[0] == "next" else -1
                sod = rng.choice(SODS) if rng.random() < 0.6 else rng.randint(0, 86399)
                ms = rng.choice(MSS)
                ex.append("%s %d %d" % (args[0], sod, ms))
            execs.append(ex)
        check_cal(ctx, binary, execs, "calgraph")
    # 2. arbitrary int64 timestamps, hand-filled Times, time texts
    nexec, nops = (150, 60) if ctx.quick else (6000, 80)
    check_cal(ctx, binary, [rand_cal_exec(rng, nops) for _ in range(nexec)], "calrandom")

    # ---- log --------------------------------------------------------------------------------------------------------
    # 3. Layer 2: the expansion loop of vlogf refines LogLine and never reads beyond the terminator; every edge replayed
    cfgs = ["LogLineImpl_small.cfg"] if ctx.quick else ["LogLineImpl_small.cfg", "LogLineImpl_ids.cfg", "LogLineImpl.cfg"]
    for cfg in cfgs:
        dot = os.path.join(ctx.work, "logimpl.dot")
        r = vlib.tlc(SPECDIR, "LogLineImpl", cfg, workers=4, timeout=1500, dump=dot, xmx="4g")
        ctx.add_tlc("LogLineImpl:" + cfg, r)
        if r.ok:
            walks, nedges = vlib.graph_walks(dot, max_len=150, seed=ctx.seed)
            os.remove(dot)
            ctx.notes["log_graph_edges_replayed:" + cfg] = nedges
            kinds = ctx.notes.setdefault("log_graph_ops", {})
            execs = []
            for w in walks:
                ex = [log_label_to_op(rng, *stp) for stp in w]
                for o in ex:
                    kinds[o.split()[0]] = kinds.get(o.split()[0], 0) + 1
                execs.append(ex)
            check_log(ctx, binary, execs, "loggraph_" + cfg.split(".")[0])
    # 4. direction B: random histories of setFormat / setLevel / logf, debugf, infof, warningf, errorf
    nexec, nops = (250, 30) if ctx.quick else (12000, 40)
    check_log(ctx, binary, [rand_log_exec(rng, nops) for _ in range(nexec)], "lograndom")
    return vlib.finish(ctx, "model_checking",
                       "Calendar: day-successor definition vs closed forms model-checked over a 400-year cycle each way, every "
                       "edge of the (quick: shorter) day graph replayed on nstd::Time and judged by the definition, random int64 "
                       "timestamps / hand-filled Times / time texts judged by the closed forms; Log: every edge of the "
                       "LogLineImpl state graph replayed on nstd::Log with stdout/stderr captured + seeded random histories, "
                       "every call validated by TLC against LogLine; distinct = distinct op sequences of length >= 2")


def replay(ctx, path):
    binary = build()
    execs = vlib.read_ops_file(path)
    logx = [e for e in execs if any(o.split()[0] in ("log", "setformat", "setlevel") for o in e)]
    calx = [e for e in execs if e not in logx]
    if logx:
        check_log(ctx, binary, logx, "replaylog")
    if calx:
        check_cal(ctx, binary, calx, "replaycal")
    return vlib.finish(ctx, "model_checking", "replay of one op sequence")
