"""C09 - Shared payloads are released exactly once, after their last handle."""
import os
import vlib

SPECDIR = os.path.join(vlib.SPEC, "conc")
SRCS = ["src/String.cpp", "src/Variant.cpp", "src/Memory.cpp", "src/Debug.cpp", "src/Document/Xml.cpp", "src/Error.cpp", "src/File.cpp", "src/Directory.cpp"]
PROGS = {
    "a": [["wa", "aeqb", "ca"], ["beqa", "wb", "da"]],
    "b": [["aeqb", "wb"], ["wa", "beqa"], ["ca", "db"]],
    "c": [["sw", "ca", "aeqb"], ["aeqb", "sw", "cb"], ["da", "sw"]],
    "d": [["wa", "wb", "aeqb"], ["ca", "cb"], ["aeqb", "beqa", "wa"]],
    "e": [["cb", "aeqa", "wa"], ["da", "beqa", "cb"]],
}
SCENARIOS = {"sa": ("string", "a"), "sb": ("string", "b"), "sd": ("string", "d"), "va": ("variant", "a"), "vb": ("variant", "b"),
             "vd": ("variant", "d"), "pc": ("ptr", "c"), "pb": ("ptr", "b"), "se": ("string", "e"), "ve": ("variant", "e"), "pe": ("ptr", "e"),
             # Variants sharing an Array / List / HashMap payload follow the same protocol as Variants sharing a string: the
             # schedules of the variant graphs are replayed on them as well (third component: the configuration reused)
             "ra": ("varr", "a", "va"), "lb": ("vlist", "b", "vb"), "md": ("vmap", "d", "vd"), "re": ("varr", "e", "ve"),
             "xa": ("xtext", "a", "va"), "xb": ("xelem", "b", "vb"), "xd": ("xelem", "d", "vd"), "xe": ("xtext", "e", "ve")}
TEXTOPS = ["ta", "tb", "za", "zb", "ua", "ub", "ga", "gb"]     # in-place modifications / mutable access of a possibly shared text payload
CONTOPS = ["aeqb", "beqa", "aeqa", "wa", "wb", "ga", "gb", "ga", "gb", "ca", "cb", "da", "db"]
OPS = {"string": ["aeqb", "beqa", "aeqa", "wa", "wb", "ca", "cb", "da", "db"] + TEXTOPS,
       "variant": ["aeqb", "beqa", "aeqa", "wa", "wb", "ca", "cb", "da", "db", "la", "lb", "oa", "ob", "la", "oa"] + TEXTOPS,
       "ptr": ["aeqb", "beqa", "aeqa", "ca", "cb", "sw", "sw", "da", "db", "na", "nb", "na"],
       "varr": CONTOPS, "vlist": CONTOPS, "vmap": CONTOPS, "xelem": CONTOPS,
       "xtext": ["aeqb", "beqa", "aeqa", "wa", "wb", "wa", "wb", "ca", "cb", "da", "db"]}


def build():
    return vlib.build("scn_rc", ["sched/sched.cpp", "conc/scn_rc.cpp"], SRCS, libs=["-ldl"])


def args_for(kind, progs):
    return ["kind=" + kind, "n=%d" % len(progs)] + ["p%d=%s" % (i + 1, ",".join(p)) for i, p in enumerate(progs)]


def key_of(args, res):
    kind = [a for a in args if a.startswith("kind=")][0][5:]
    ops = set()
    for a in args:
        if a[0] == "p" and "=" in a and a[1].isdigit():
            ops.update(a.split("=", 1)[1].split(","))
    feat = "swap" if "sw" in ops and kind == "ptr" else "plain"
    return "RefCount.%s:%s:%s" % (kind, feat, res)


def check_runs(ctx, binary, runs, tag):
    combined, results = vlib.run_sched_executions(binary, runs, ctx.work, tag)
    ctx.evaluations += sum(r.get("steps", 0) for r in results)
    bad = set()
    for i, r in enumerate(results):
        ctx.drift += r.get("diverged", 0)
        if r["verdict"] != "done":
            bad.add(i)
            rp = ctx.save_replay("%s_%d.args" % (tag, i), [" ".join(runs[i]) + " --sched " + '"%s"' % r.get("choices", "")])
            san = [l for l in r.get("stderr", "").splitlines() if "ERROR: AddressSanitizer" in l or "SUMMARY" in l or "runtime error" in l]
            ctx.report(key_of(runs[i], "asan" if san else r["verdict"]), rp, "verdict %s (%s) for %s\nschedule: %s\n%s" % (
                r["verdict"], r.get("failure", ""), " ".join(runs[i]), r.get("choices", ""), "\n".join(san[:4])))
    r, mism, done = vlib.validate_trace(SPECDIR, "RefHandlesTrace", "RefHandlesTrace.cfg", combined)
    ctx.add_tlc("trace:" + tag, r, must_pass=False)
    if r.violation or (not done and not r.broken):
        ctx.broken.append("trace validation of %s failed: %s" % (tag, (r.violation or "incomplete")[:800]))
    for line, why in mism:
        for i, res in enumerate(results):
            if res["lines"][0] <= line <= res["lines"][1] and i not in bad:
                bad.add(i)
                rp = ctx.save_replay("%s_%d.args" % (tag, i), [" ".join(runs[i]) + " --sched " + '"%s"' % res.get("choices", "")])
                ctx.report(key_of(runs[i], "layer1"), rp, "Layer-1 mismatch at trace line %d (%s) of %s\nschedule: %s" % (
                    line - res["lines"][0] + 1, why, " ".join(runs[i]), res.get("choices", "")))
    ctx.traces += len(runs) - len(bad)
    for a in runs:
        ctx.distinct.add(hash(tuple(a)))
    if runs:
        ctx.sample({"source": tag, "args": runs[len(runs) // 2]})


def native_stress(ctx):
    """Really parallel threads (no scheduler, no hook): lost count updates show as an early or a missing destruction."""
    binary = vlib.build("stress_rc", ["conc/stress_rc.cpp"], [x for x in SRCS], libs=["-lpthread"], no_guard=True)
    trace = os.path.join(ctx.work, "stress.ndjson")
    nt, iters, rounds = (4, 60000, 4) if ctx.quick else (8, 400000, 12)
    rc, out = vlib.sh(["timeout", "600", binary, trace, str(nt), str(iters), str(rounds)], timeout=660)
    if rc != 0:
        rp = ctx.save_replay("stress.args", ["stress %d %d %d" % (nt, iters, rounds)])
        ctx.report("RefCount.nativeStress:" + ("asan" if "AddressSanitizer" in out else "crash"), rp, "native stress run failed (rc %s)\n%s" % (rc, out[-1500:]))
        return
    r, mism, done = vlib.validate_trace(SPECDIR, "RefHandlesTrace", "RefHandlesTrace.cfg", trace)
    ctx.add_tlc("trace:stress", r, must_pass=False)
    if r.violation or (not done and not r.broken):
        ctx.broken.append("trace validation of the native stress run failed: %s" % ((r.violation or "incomplete")[:600]))
    for line, why in mism:
        rp = ctx.save_replay("stress.args", ["stress %d %d %d" % (nt, iters, rounds)])
        ctx.report("RefCount.nativeStress:layer1", rp, "native stress: object not destroyed exactly once after its last handle (trace line %d)" % line)
    ctx.traces += rounds
    ctx.evaluations += nt * iters * rounds
    ctx.notes["native_stress"] = {"threads": nt, "iterations": iters, "rounds": rounds}


def rand_progs(rng):
    kind = rng.choice(["string", "variant", "ptr", "string", "variant", "ptr", "varr", "vlist", "vmap", "xtext", "xelem"])
    n = rng.randint(2, 4)
    return kind, [[rng.choice(OPS[kind]) for _ in range(rng.randint(1, 5))] for _ in range(n)]


def apalache_inductive(ctx):
    """Unbounded-length safety of the abstract protocol: Apalache discharges Init => IndInv, IndInv /\ Next => IndInv',
    IndInv => Safety for spec/conc/apalache/RefCountInd.tla (3 threads x 2 payloads).  A failure is a broken check."""
    d = os.path.join(SPECDIR, "apalache")
    out = os.path.join(ctx.work, "apalache")
    obligations = [("Init => IndInv", ["--init=Init", "--inv=IndInv", "--length=0"]),
                   ("IndInv /\\ Next => IndInv'", ["--init=IndInv", "--inv=IndInv", "--length=1"]),
                   ("IndInv => Safety", ["--init=IndInv", "--inv=Safety", "--length=0"])]
    done = 0
    for name, args in obligations:
        rc, txt = vlib.sh(["timeout", "900", "apalache-mc", "check", "--cinit=CInit", "--out-dir=" + out] + args + ["RefCountInd.tla"], timeout=960, cwd=d)
        if "EXITCODE: OK" in txt:
            done += 1
        else:
            ctx.broken.append("Apalache obligation '%s' not discharged: %s" % (name, txt[-600:]))
    ctx.notes["apalache_obligations"] = len(obligations)
    ctx.notes["apalache_discharged"] = done


def run(ctx):
    binary = build()
    apalache_inductive(ctx)
    native_stress(ctx)
    for n in sorted(SCENARIOS):
        kind, pk = SCENARIOS[n][:2]
        dot = os.path.join(ctx.work, n + ".dot")
        r = vlib.tlc(SPECDIR, "RefCountScenarios", "RefCountImpl_%s.cfg" % (SCENARIOS[n] + (n,))[2], workers=4, timeout=600, dump=dot)
        ctx.add_tlc("RefCountImpl_" + n, r)
        if not r.ok:
            continue
        walks, nedges = vlib.graph_walks(dot, max_len=100, seed=ctx.seed)
        os.remove(dot)
        runs = [args_for(kind, PROGS[pk]) + ["--seed", str(ctx.seed + i), "--spur", "0", "--sched", " ".join(str(st[1][0]) for st in w)] for i, w in enumerate(walks)]
        ctx.notes["graph_edges:" + n] = nedges
        check_runs(ctx, binary, runs, "graph_" + n)
    nrand = 400 if ctx.quick else 8000
    runs = []
    for i in range(nrand):
        kind, progs = rand_progs(ctx.rng)
        runs.append(args_for(kind, progs) + ["--seed", str(ctx.seed * 100003 + i), "--spur", "0"])
    check_runs(ctx, binary, runs, "random")
    # systematically: every schedule with at most 2 (thorough: 3) preemptions of small programs, for every payload kind
    SMALL = {"text": [[["wa", "aeqb"], ["ta", "da"]], [["za", "beqa"], ["ua"], ["da", "db"]], [["aeqb", "wb"], ["wa", "beqa"]]],
             "ptr": [[["sw", "ca"], ["aeqb", "da"]], [["aeqb", "sw"], ["da", "sw"], ["cb"]], [["na", "aeqb"], ["da", "nb"]], [["na", "na"], ["nb", "sw"], ["da"]]],
             "cont": [[["ga", "wa"], ["da"]], [["wa", "aeqb"], ["ga", "db"], ["ca"]], [["beqa", "gb"], ["wa", "da"]]]}
    runs = []
    for kind in ("string", "variant", "xtext", "ptr", "varr", "vlist", "vmap", "xelem"):
        fam = "ptr" if kind == "ptr" else ("cont" if kind in ("varr", "vlist", "vmap", "xelem") else "text")
        for progs in SMALL[fam]:
            if kind == "xtext":
                progs = [[op for op in p if op[0] not in "tzu"] or ["wa"] for p in progs]
            base = args_for(kind, progs) + ["--seed", "1", "--spur", "0"]
            runs += vlib.preemption_bounded_schedules(binary, base, bound=2 if ctx.quick else 3, cap=120 if ctx.quick else 3000)
    ctx.notes["preemption_bounded_schedules"] = len(runs)
    check_runs(ctx, binary, runs, "pb")
    ctx.assumptions.append("sequential consistency at the granularity of the atomic operations (weak-memory reorderings between two atomic accesses are not explored)")
    return vlib.finish(ctx, "model_checking",
                       "TLC state graphs of the reference-count protocol (String / Variant copy-on-write incl. Array / List / HashMap payloads, Xml::Variant text / element payloads, RefCount::Ptr) for 19 "
                       "multi-thread programs -> schedules replayed on the real classes through the cooperative scheduler with the "
                       "Atomic hook + random programs of 2-4 threads (assignment, self-assignment, append, trim / shrink / upper-case in place, mutable accessors, clear, swap, destruction) under random schedules; handle values after every operation "
                       "and pointee destruction validated by TLC against RefHandles; ASan and LeakSanitizer decide release-once / "
                       "no-use-after-release; distinct = distinct (program, schedule) pairs")


def replay(ctx, path):
    binary = build()
    import shlex
    with open(path) as f:
        args = shlex.split(f.read().strip())
    check_runs(ctx, binary, [args], "replay")
    return vlib.finish(ctx, "model_checking", "replay")
