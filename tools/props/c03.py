"""C03 - List, Array and PoolList hold exactly the reference sequence; List::sort."""
import itertools
import os
import vlib

SPECDIR = os.path.join(vlib.SPEC, "containers")
KINDS = ("list", "array", "poollist")


def build():
    return vlib.build("drv_seq", ["seq/drv_seq.cpp"], ["src/Memory.cpp"])


# ---------------------------------------------------------------------------------------------
# op lines:  new <i> <kind> <cap>   |   <op> <i> <v> <p>

def label_to_op(name, args):
    op, i, v, p, kd = args
    if op == "new":
        return "new %d %s %d" % (i, kd, p)
    return "%s %d %d %d" % (op, i, v, p)


def kinds_before(ops, step):
    """classes of the two variables before executing ops[step-1]"""
    kinds = {1: "list", 2: "list"}
    for line in ops[:max(0, step - 1)]:
        t = line.split()
        if t[0] == "new":
            kinds[int(t[1])] = t[2]
    return kinds


def key_of(ops, step):
    """Signature of a failing step: class of the variable operated on + operation (+ emptiness for the boundary)."""
    if not (0 < step <= len(ops)):
        return "Seq.?"
    t = ops[step - 1].split()
    kinds = kinds_before(ops, step)
    kind = t[2] if t[0] == "new" else kinds.get(int(t[1]), "?")
    return "%s.%s" % (kind, t[0])


VALUES = (1, 2, 3, 4)


def rand_exec(rng, nops):
    """One random history.  Mostly both variables are of one class (so that swap/copy/assign/bulk operations apply);
    sizes stay small so that empty/one-element and Array growth boundaries (3, 7, 11 elements) are crossed often."""
    ops = []
    kind = rng.choice(KINDS)
    kinds = {1: kind, 2: kind if rng.random() < 0.85 else rng.choice(KINDS)}
    size = {1: 0, 2: 0}
    for i in (1, 2):
        ops.append("new %d %s %d" % (i, kinds[i], rng.choice([0, 0, 1, 2, 3, 4, 5, 7, 8]) if kinds[i] == "array" else 0))
    big = rng.random() < 0.3
    for _ in range(nops):
        i = rng.randint(1, 2)
        K = kinds[i]
        n = size[i]
        v = rng.choice(VALUES)
        pos = rng.randint(0, n) if n else 0
        idx = rng.randint(0, n - 1) if n else 0
        grow = n < (12 if big else 5)
        x = rng.random()
        if x < 0.02:
            kinds[i] = rng.choice(KINDS) if rng.random() < 0.3 else kinds[3 - i]
            ops.append("new %d %s %d" % (i, kinds[i], rng.choice([0, 1, 3, 4, 7, 8]) if kinds[i] == "array" else 0))
            size[i] = 0
            continue
        if K == "list":
            cands = ["append"] * 4 + ["prepend"] * 3 + ["insert"] * 4 if grow else []
            cands += ["rmat"] * 3 + ["rmval"] * 2 + ["rmfront", "rmback", "find", "find", "front", "back", "eq", "sort", "sort"]
            cands += ["clear", "swap", "copy", "assign"]
            if size[1] + size[2] <= 12:
                cands += ["appendall", "prependall", "insertall"]
            if n <= 6 and rng.random() < 0.2:         # the list itself as the argument (a bulk operation like any other)
                cands = ["appendself", "prependself", "insertself", "insertself", "assignself"]
        elif K == "array":
            cands = ["append"] * 6 + ["appendn"] if grow else []
            cands += ["rmat"] * 3 + ["rmidx"] * 3 + ["rmfront", "rmback", "find", "find", "front", "back"]
            cands += ["clear", "swap", "copy", "assign", "resize", "resize", "resized", "reserve", "reserve"]
            if size[1] + size[2] <= 12:
                cands += ["appendall"]
            if n and n <= 8 and rng.random() < 0.12:   # append(pointer, count) with a range of the array's own elements
                cands = ["appendrange"]
        else:
            cands = ["append"] * 7 if grow else []
            cands += ["rmat"] * 3 + ["rmref"] * 3 + ["rmfront", "rmback", "clear", "swap"]
        op = rng.choice(cands)
        same = kinds[1] == kinds[2]
        if op in ("append", "prepend"):
            ops.append("%s %d %d 0" % (op, i, v)); size[i] += 1
        elif op == "insert":
            ops.append("insert %d %d %d" % (i, v, pos)); size[i] += 1
        elif op == "appendn":
            k = rng.choice([0, 1, 2, 3, 5])
            ops.append("appendn %d %d %d" % (i, v, k)); size[i] += k
        elif op in ("rmat", "rmref"):
            if n == 0:
                continue
            ops.append("%s %d 0 %d" % (op, i, idx)); size[i] -= 1
        elif op == "rmidx":
            k = rng.randint(0, n + 1)
            ops.append("rmidx %d 0 %d" % (i, k))
            if k < n:
                size[i] -= 1
        elif op == "rmval":
            ops.append("rmval %d %d 0" % (i, v))
            size[i] = None
        elif op in ("rmfront", "rmback"):
            if n == 0:
                continue
            ops.append("%s %d 0 0" % (op, i)); size[i] -= 1
        elif op in ("front", "back"):
            if n == 0:
                continue
            ops.append("%s %d 0 0" % (op, i))
        elif op == "find":
            ops.append("find %d %d 0" % (i, rng.choice(VALUES + (5,))))
        elif op in ("sort", "eq"):
            ops.append("%s %d 0 0" % (op, i))
        elif op == "clear":
            ops.append("clear %d 0 0" % i); size[i] = 0
        elif op == "resize":
            k = rng.choice([0, 1, 2, 3, 4, 5, 7, 8, 9]) if not big else rng.randint(0, 14)
            ops.append("resize %d %d %d" % (i, v, k)); size[i] = k
        elif op == "resized":
            k = rng.choice([0, 1, 3, 4, 8])
            ops.append("resized %d 0 %d" % (i, k)); size[i] = k
        elif op == "reserve":
            ops.append("reserve %d 0 %d" % (i, rng.choice([0, 1, 3, 4, 5, 7, 8, 12])))
        elif not same:
            continue
        elif op == "swap":
            ops.append("swap %d 0 0" % i); size[1], size[2] = size[2], size[1]
        elif op in ("copy", "assign"):
            ops.append("%s %d 0 0" % (op, i)); size[i] = size[3 - i]
        elif op in ("appendall", "prependall"):
            ops.append("%s %d 0 0" % (op, i)); size[i] += size[3 - i]
        elif op == "insertall":
            ops.append("insertall %d 0 %d" % (i, pos)); size[i] += size[3 - i]
        elif op == "appendrange":
            a0 = rng.randint(0, n); cnt = rng.randint(0, n - a0)
            ops.append("appendrange %d %d %d" % (i, a0, cnt)); size[i] += cnt
        elif op in ("appendself", "prependself", "insertself", "assignself"):
            ops.append("%s %d 0 %d" % (op, i, pos))
            if op != "assignself":
                size[i] *= 2
        if size[i] is None:
            # rmval: the generator does not know whether the value was present; re-learn the size conservatively
            size[i] = max(0, n - 1)
            if n and rng.random() < 0.5:
                ops.append("clear %d 0 0" % i); size[i] = 0
    return ops


def sort_execs(maxlen, values=(1, 2, 3, 4), per_exec=40):
    """List::sort on every value sequence of length <= maxlen: load (p appends) + sort + clear, batched."""
    execs, cur = [], []
    for n in range(0, maxlen + 1):
        for seq in itertools.product(values, repeat=n):
            code = int("".join(str(d) for d in seq)) if n else 0
            cur += ["load 1 %d %d" % (code, n), "sort 1 0 0", "clear 1 0 0"]
            if len(cur) >= 3 * per_exec:
                execs.append(cur)
                cur = []
    if cur:
        execs.append(cur)
    return execs


def op_histogram(executions):
    h = {}
    for e in executions:
        for line in e:
            op = line.split()[0]
            h[op] = h.get(op, 0) + 1
    return dict(sorted(h.items()))


def check_executions(ctx, binary, executions, tag):
    ctx.notes["ops_" + tag] = op_histogram(executions)          # vacuity: which operations this source really exercises
    return vlib.check_executions(ctx, binary, executions, tag, SPECDIR, "RefSeqTrace", "RefSeqTrace.cfg", key_of)


def graph_replay(ctx, binary, module, cfg, tag, timeout=1500, xmx="6g", first=None):
    dot = os.path.join(ctx.work, tag + ".dot")
    r = vlib.tlc(SPECDIR, module, cfg, workers=8, timeout=timeout, dump=dot, xmx=xmx)
    ctx.add_tlc("%s(%s)" % (module, cfg), r)
    if not r.ok:
        return
    walks, nedges = vlib.graph_walks(dot, max_len=150, seed=ctx.seed)
    os.remove(dot)
    execs = [(first or []) + [label_to_op(*st) for st in w] for w in walks]
    ctx.notes["graph_edges_replayed_" + tag] = nedges
    taken = set(st[1][0] for w in walks for st in w)
    want = {"new", "reserve", "append", "resize", "rmidx", "rmat", "rmfront", "rmback", "clear", "find", "front", "back"} \
        if tag == "array1" else {"append", "appendall", "copy", "assign", "swap"}
    if not want <= taken:
        ctx.broken.append("%s(%s): actions never taken: %s" % (module, cfg, sorted(want - taken)))
    check_executions(ctx, binary, execs, tag)


def run(ctx):
    binary = build()
    q = ctx.quick
    # 1. the Layer-1 reference itself (two variables, all three classes, every operation)
    r = vlib.tlc(SPECDIR, "RefSeq", "RefSeq_small.cfg" if q else "RefSeq.cfg", workers=8, timeout=900)
    ctx.add_tlc("RefSeq", r)
    # 2. Layer 2: Array (growth rule, shifting removal, copy/assign through reserve(other.capacity())) refines RefSeq
    #    and never constructs outside its block; every edge of the state graphs becomes an implementation test
    arr0 = ["new 1 array 0", "new 2 array 0"]
    graph_replay(ctx, binary, "ArrayImpl", "ArrayImpl_small.cfg" if q else "ArrayImpl.cfg", "array1", first=arr0)
    graph_replay(ctx, binary, "ArrayImpl", "ArrayImpl_two_small.cfg" if q else "ArrayImpl_two.cfg", "array2", first=arr0)
    # 3. Layer 2: List::sort (in-place quicksort over the nodes) transcribed; TLC checks the Layer-1 postcondition
    #    SortPost for ALL value sequences up to the bound and that the scan never leaves [left, right]
    r = vlib.tlc(SPECDIR, "ListSortImpl", "ListSortImpl_small.cfg" if q else "ListSortImpl.cfg", workers=8, timeout=1500,
                 xmx="6g")
    ctx.add_tlc("ListSortImpl", r)
    #    ... and the real List::sort runs on every value sequence (each one is one path of that model)
    execs = sort_execs(6 if q else 8)
    ctx.notes["sort_sequences"] = sum(len(e) // 3 for e in execs)
    check_executions(ctx, binary, execs, "sortall")
    #    ... and on long monotone lists in a thread with a small stack: the recursion depth must stay logarithmic (DepthLog)
    check_executions(ctx, binary, [["new 1 list 0", "new 2 list 0", "sortbig 1 %d %d" % (order, n)]
                                   for order, n in ([(0, 12000), (1, 12000), (2, 30000)] if q else [(0, 20000), (1, 20000), (2, 100000), (0, 2), (1, 3)])]
                     + [["new 1 list 0", "new 2 list 0"] + ["poolsmall 1 0 %d" % n for n in (1, 3, 4, 5, 9, 13, 40)]], "sortbig")
    # 4. direction B: random histories over two variables of all three classes, validated by TLC against RefSeq
    nexec, nops = (500, 40) if q else (6000, 70)
    execs = [rand_exec(ctx.rng, nops) for _ in range(nexec)]
    check_executions(ctx, binary, execs, "random")
    return vlib.finish(ctx, "model_checking",
                       "every edge of the ArrayImpl state graphs (TLC) replayed on the real Array; List::sort on every value "
                       "sequence of the stated length; seeded random op histories over two variables (List/Array/PoolList); "
                       "every step validated by TLC against RefSeq; distinct = distinct op sequences of length >= 2")


def replay(ctx, path):
    binary = build()
    check_executions(ctx, binary, vlib.read_ops_file(path), "replay")
    return vlib.finish(ctx, "model_checking", "replay of one op sequence")
