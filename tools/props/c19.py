"""C19 - Paths, files and directories behave truthfully and stay inside their tree."""
import glob
import itertools
import os
import shutil
import vlib
from vlib import hexs

SPECDIR = os.path.join(vlib.SPEC, "text")
ALPHA = b"/.ab"


def build():
    return vlib.build("drv_fs", ["fs/drv_fs.cpp"], ["src/File.cpp", "src/Directory.cpp", "src/Memory.cpp", "src/String.cpp"])


def strings(maxlen, alpha=ALPHA):
    for n in range(maxlen + 1):
        for t in itertools.product(alpha, repeat=n):
            yield bytes(t)


# ------------------------------------------------------------------------------------------------ keys
def _cls(b):
    s = b.decode("latin1")
    comps = [c for c in s.split("/") if c not in ("", ".")]
    return "%s%s" % ("abs" if s.startswith("/") else "rel", "+dotdot" if ".." in comps else "")


def path_key(ops, step):
    """Signature of a failing path evaluation: the function group and the lexical class of the input."""
    t = ops[step - 1].split() if 0 < step <= len(ops) else ["?"]
    if t[0] == "path":
        b = bytes.fromhex(t[1][1:])
        base = b.split(b"/")[-1]
        return "File.path:%s%s" % (_cls(b), ":multidot" if base.count(b".") >= 2 else "")
    if t[0] == "rel":
        return "File.getRelativePath:%s->%s" % (_cls(bytes.fromhex(t[1][1:])), _cls(bytes.fromhex(t[2][1:])))
    return "File." + t[0]


def fs_key(ops, step):
    """Signature of a failing file-system step: operation, flag argument and whether its target was named before."""
    if not (0 < step <= len(ops)):
        return "Fs.?"
    t = ops[step - 1].split()
    op = t[0]
    paths = [x for x in t[1:3] if x and (x[0] in "ab")]
    before = set()
    for o in ops[:step - 1]:
        before.update(x for x in o.split()[1:3] if x and x[0] in "ab")
    k = ""
    if op in ("open", "put", "dunlink", "symlink"):
        k = ":k%s" % t[2]
    elif op in ("copy", "copylim", "rename"):
        k = ":k%s" % t[3]
    tgt = paths[-1] if paths else ""
    return "Fs.%s%s%s" % (op, k, ":targetSeen" if tgt in before else "")


# ------------------------------------------------------------------------------------------------ binding step
def check_executions(ctx, binary, executions, tag, module, cfg, key_of, timeout=1500):
    """vlib.check_executions, then drop replay files that only repeat an already reported key."""
    before = set(os.listdir(ctx.replay_dir))
    nviol = len(ctx.violations)
    bad = vlib.check_executions(ctx, binary, executions, tag, SPECDIR, module, cfg, key_of,
                                driver_args=[vlib.BUILD], driver_timeout=timeout, tlc_timeout=timeout)
    _stats(ctx, os.path.join(ctx.work, "trace_%s.ndjson" % tag))
    seen = set(k for k, _, _ in ctx.violations[:nviol])
    keep = []
    for key, path, text in ctx.violations[nviol:]:
        if key in seen:
            if os.path.basename(path) not in before and os.path.exists(path):
                os.remove(path)
            continue
        seen.add(key)
        keep.append((key, path, text))
    ctx.violations[nviol:] = keep
    known_paths = set(ctx.known_hits.values())
    for f in set(os.listdir(ctx.replay_dir)) - before:
        p = os.path.join(ctx.replay_dir, f)
        if f.startswith(tag + "_") and p not in known_paths and all(p != v[1] for v in ctx.violations):
            os.remove(p)
    _sweep_scratch()
    return bad


def _stats(ctx, trace):
    """Vacuity counters: how often every operation was observed succeeding / failing, skipped steps, shapes."""
    import json
    c = ctx.cov
    try:
        with open(trace) as f:
            for line in f:
                if '"op":"reset"' in line:
                    continue
                e = json.loads(line)
                op = e["op"]
                if op == "path":
                    k = "path.simplified" if e["simp"] != e["p"] else "path.unchanged"
                elif op == "rel":
                    k = "rel.none" if not e["r"] else "rel.found"
                elif op == "nop":
                    k = "fs.nop(guarded)"
                else:
                    k = "fs.%s.%s" % (op, "ok" if e["r"] > 0 or (op == "seek" and e["r"] == 0) else "fail")
                c[k] = c.get(k, 0) + 1
    except OSError:
        pass


def _sweep_scratch():
    """Remove scratch trees of drivers that died (a crashed driver cannot clean up after itself)."""
    for d in glob.glob(os.path.join(vlib.BUILD, "fs.*")):
        try:
            pid = int(d.rsplit(".", 1)[1])
        except ValueError:
            continue
        try:
            os.kill(pid, 0)
        except ProcessLookupError:
            shutil.rmtree(d, ignore_errors=True)      # rmtree never follows symbolic links
        except PermissionError:
            pass


# ------------------------------------------------------------------------------------------------ generators
def path_execs(ctx):
    single = 6 if ctx.quick else 7
    pair_all = 3 if ctx.quick else 4
    nrand = 3000 if ctx.quick else 40000
    ex = [["path " + hexs(s)] for s in strings(single)]
    short = list(strings(pair_all))
    ex += [["rel %s %s" % (hexs(a), hexs(b))] for a in short for b in short]
    for _ in range(nrand):
        a = bytes(ctx.rng.choice(ALPHA) for _ in range(ctx.rng.randint(0, 7)))
        b = bytes(ctx.rng.choice(ALPHA) for _ in range(ctx.rng.randint(0, 7)))
        ex.append(["rel %s %s" % (hexs(a), hexs(b))])
    return ex


def pstr(p):
    return "/".join(p) if p else "-"


def label_to_op(name, args):
    op, p, q, k, d = args
    if op == "open":
        return "open %s %d" % (pstr(p), k)
    if op == "write":
        return "write %s" % hexs(d)
    if op == "seek":
        return "seek %d %d" % (d[0], k)
    if op in ("readall", "close", "size"):
        return op
    if op == "read":
        return "read %d" % k
    if op == "put":
        return "put %s %d %s" % (pstr(p), k, hexs(d))
    if op in ("get", "unlink", "dcreate", "dcreaterace", "fexists", "dexists"):
        return "%s %s" % (op, pstr(p))
    if op in ("copy", "copylim", "rename"):
        return "%s %s %s %d" % (op, pstr(p), pstr(q), k)
    if op in ("dunlink", "symlink", "dcreated", "dcreateroot"):
        return "%s %s %d" % (op, pstr(p), k)
    raise ValueError(op)


PATHS = ["a", "b", "a/a", "a/b", "b/a", "a/a/a"]


def rand_fs_exec(rng, nops):
    ops = []
    hopen = False          # a handle was (probably) opened and not closed: only then handle steps make sense
    for _ in range(nops):
        p = rng.choice(PATHS)
        q = rng.choice(PATHS)
        d = hexs([rng.choice([1, 2, 3]) for _ in range(rng.choice([0, 1, 1, 2, 3]))])
        x = rng.random()
        if hopen and x < 0.45:
            y = rng.random()
            if y < 0.35:
                ops.append("write " + d)
            elif y < 0.65:
                ops.append("seek %d %d" % (rng.choice([0, 1, 2, 5, -1, -2]), rng.randint(0, 2)))
            elif y < 0.80:
                ops.append("readall")
            elif y < 0.86:
                ops.append("read %d" % rng.choice([0, 1, 2, 3, 7]))
            elif y < 0.89:
                ops.append("size")
            else:
                ops.append("close")
                hopen = False
            continue
        x = rng.random()
        if x < 0.01:
            ops.append("dcreateroot a %d" % rng.randint(0, 1))         # Directory::create("/") / ("/tmp"): exist, so it must say so
        elif x < 0.04:
            ops.append("dcreated %s %d" % (p, rng.randint(0, 1)))
        elif x < 0.06:
            ops.append("dcreaterace " + p)        # three threads create the same (possibly deep) path at once
        elif x < 0.12:
            ops.append("dcreate " + p)
        elif x < 0.27:
            ops.append("put %s %d %s" % (p, rng.choice([2, 3, 6, 10, 7]), d))
        elif x < 0.34:
            ops.append("get " + p)
        elif x < 0.41:
            ops.append("copy %s %s %d" % (p, p if rng.random() < 0.12 else q, rng.randint(0, 1)))      # (sometimes onto itself)
        elif x < 0.44:
            ops.append("copylim %s %s %d" % (p, q, rng.randint(0, 7)))       # failIfExists + 2 * (no file may grow beyond this)
        elif x < 0.56:
            ops.append("rename %s %s %d" % (p, q, rng.randint(0, 1)))
        elif x < 0.62:
            ops.append("unlink " + p)
        elif x < 0.70:
            ops.append("dunlink %s %d" % (p, rng.randint(0, 1)))
        elif x < 0.77:
            ops.append("symlink %s %d" % (p, rng.randint(0, 1)))
        elif x < 0.81:
            ops.append(rng.choice(["fexists ", "dexists "]) + p)
        else:
            if rng.random() < 0.7:
                p = rng.choice(["a", "b"])
            if rng.random() < 0.5:
                ops.append("put %s 2 %s" % (p, d))
            ops.append("open %s %d" % (p, rng.choice([1, 2, 3, 3, 6, 7, 7, 10, 11, 5])))
            hopen = True
    return ops


def run(ctx):
    binary = build()
    _sweep_scratch()
    # 1. path functions: the reference's own sanity, then every string / pair through the real functions
    r = vlib.tlc(SPECDIR, "Path", "Path.cfg", workers=4, timeout=600)
    ctx.add_tlc("Path", r)
    ex = path_execs(ctx)
    ctx.notes["path_evaluations"] = len(ex)
    check_executions(ctx, binary, ex, "path", "PathTrace", "PathTrace.cfg", path_key)
    # 2. file system model: exhaustive exploration, every edge replayed in a scratch directory
    for name, cfg in (("FsTree", "FsTree_quick.cfg" if ctx.quick else "FsTree.cfg"),
                      ("FsFile", "FsFile_quick.cfg" if ctx.quick else "FsFile.cfg")):
        dot = os.path.join(ctx.work, name + ".dot")
        r = vlib.tlc(SPECDIR, "FsModel", cfg, workers=8, timeout=1500, dump=dot, xmx="6g")
        ctx.add_tlc(name, r)
        if r.ok:
            walks, nedges = vlib.graph_walks(dot, max_len=60, seed=ctx.seed)
            os.remove(dot)
            execs = [[label_to_op(*st) for st in w] for w in walks]
            ctx.notes["graph_edges_replayed_" + name] = nedges
            check_executions(ctx, binary, execs, "graph" + name, "FsTrace", "FsTrace.cfg", fs_key)
    # 3. seeded random histories (longer, all operations mixed)
    nexec, nops = (600, 25) if ctx.quick else (5000, 40)
    execs = [rand_fs_exec(ctx.rng, nops) for _ in range(nexec)]
    check_executions(ctx, binary, execs, "random", "FsTrace", "FsTrace.cfg", fs_key)
    return vlib.finish(ctx, "model_checking",
                       "path functions evaluated on all strings of length <= 6 over {/,.,a,b} and on all pairs of short "
                       "strings, outputs judged by TLC against Path.tla; every edge of the FsModel state graphs (TLC) "
                       "replayed on the real File/Directory in a scratch tree + seeded random histories, every step "
                       "(result, tree snapshot, outside snapshot, handle) validated by TLC against FsModel")


def replay(ctx, path):
    binary = build()
    execs = vlib.read_ops_file(path)
    pe = [e for e in execs if e and e[0].split()[0] in ("path", "rel")]
    fe = [e for e in execs if e and e[0].split()[0] not in ("path", "rel")]
    if pe:
        check_executions(ctx, binary, pe, "replayp", "PathTrace", "PathTrace.cfg", path_key)
    if fe:
        check_executions(ctx, binary, fe, "replayf", "FsTrace", "FsTrace.cfg", fs_key)
    return vlib.finish(ctx, "model_checking", "replay of one op sequence")


def selftest(ctx):
    """Binding self-test of the trace specifications: an unmodified trace is accepted, a trace with one corrupted
    observation (simplified path, file content in the snapshot, outside tree) is rejected."""
    binary = build()
    cases = [(["path x612f62"], "PathTrace", '"simp":[97,47,98]', '"simp":[97,47,97]'),
             (["dcreate a", "put a/b 2 x0102", "get a/b"], "FsTrace", '"rd":[1,2]', '"rd":[1,3]'),
             (["dcreate a", "put a/b 2 x0102", "dunlink a 1"], "FsTrace", '"r":1,"rd":[],"tree":[]', '"r":1,"rd":[],"tree":[{"p":["a"],"t":"dir","c":[]}]'),
             (["dcreate a", "symlink a/b 1", "dunlink a 1"], "FsTrace", '"outsame":true,"out":[]', '"outsame":false,"out":[{"p":["s"],"t":"file","c":[7,8]}]')]
    ok = True
    for ops, module, old, new in cases:
        tp = os.path.join(ctx.work, "selftest.ndjson")
        vlib.run_driver(binary, [ops], tp, args=[vlib.BUILD])
        text = open(tp).read()
        r, mism, done = vlib.validate_trace(SPECDIR, module, module + ".cfg", tp)
        good = done and not mism and old in text
        k = text.rfind(old)
        with open(tp, "w") as f:
            f.write(text[:k] + new + text[k + len(old):] if k >= 0 else text)
        r, mism2, done2 = vlib.validate_trace(SPECDIR, module, module + ".cfg", tp)
        bad = done2 and len(mism2) >= 1
        vlib.log("selftest %-10s %-28s original accepted=%s corrupted rejected=%s" % (module, ops[-1], good, bad))
        ok = ok and good and bad
    _sweep_scratch()
    return 0 if ok else 2
