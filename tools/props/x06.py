"""X06 (extra) - Socket stream and datagram I/O on real loopback sockets: bytes in order, datagrams intact, sizes honoured
(including sizes of 2^31 bytes and more), names and options."""
import json
import os
import vlib

SPECDIR = os.path.join(vlib.SPEC, "server")
SRCS = ["src/Socket/Socket.cpp", "src/String.cpp", "src/Memory.cpp", "src/Error.cpp", "src/Debug.cpp"]
HUGE = [2 ** 31 - 1, 2 ** 31, 2 ** 31 + 5, 2 ** 32 - 1, 2 ** 32, 2 ** 32 + 7, 2 ** 33]
TRACE = ("SockIOTrace", "SockIOTrace.cfg")


def build():
    return vlib.build("drv_sockio", ["sockio/drv_sockio.cpp"], SRCS)


def size_class(size):
    if size < 2 ** 31:
        return ""
    if size % 2 ** 32 == 0:
        return ":sizeMultipleOf2^32"
    if size >= 2 ** 32:
        return ":sizeBeyond2^32"
    return ":size2^31to2^32"


def key_of(ops, step):
    """Signature of a failing step: the operation and the precondition that matters (the size class of huge calls)."""
    if not (0 < step <= len(ops)):
        return "X06.?"
    t = ops[step - 1].split()
    op = t[0]
    if op == "sendhuge":
        return "Socket.send" + size_class(int(t[2]))
    if op == "recvhuge":
        return "Socket.recv" + size_class(int(t[2]))
    if op == "usendtohuge":
        return "Socket.sendTo" + size_class(int(t[3]))
    if op == "urecvhuge":
        return "Socket.recvFrom" + size_class(int(t[2]))
    if op == "recv" and len(t) > 3 and int(t[3]) > 0 or op == "recvmin2":
        return "Socket.recv:minSize"
    names = {"send": "Socket.send", "recv": "Socket.recv", "drain": "Socket.recv:drain", "close": "Socket.close", "shutwr": "Socket.shutdown",
             "conn": "Socket.connect/accept/names", "opt": "Socket.option:" + (t[3] if len(t) > 3 else "?"), "uopen": "Socket.open:udp",
             "usendto": "Socket.sendTo", "urecv": "Socket.recvFrom", "uclose": "Socket.close:udp"}
    return names.get(op, "X06." + op)


# ---------------------------------------------------------------------------------------------
# generators (they choose inputs; verdicts come from TLC's trace validation)

SIZES = [0, 1, 1, 2, 5, 17, 100, 1000, 1460, 4096, 8192, 65535, 65536, 70000, 70000]
OPT_TCP = [(0, 0), (1, 0), (2, 0), (3, 0), (4, 4096), (4, 65536), (5, 4096), (5, 65536), (4, 1), (5, 20000), (6, 0)]
OPT_UDP = [(0, 0), (2, 0), (3, 0), (4, 8192), (4, 65536), (5, 8192), (5, 65536), (6, 0), (6, 0)]


def rand_size(rng):
    return rng.choice(SIZES) if rng.random() < 0.7 else rng.randint(1, 70000)


def rand_tcp_exec(rng, nops):
    """One or two connections; the generator keeps approximate books only to make interesting calls likely - the driver
    refuses calls that could block forever, the trace specification judges what the real calls returned."""
    ops = []
    nconn = rng.choice([1, 1, 2])
    nb = {}
    alive = set()
    for c in range(1, nconn + 1):
        a, b = rng.random() < 0.5, rng.random() < 0.5
        ops.append("conn %d %d %d %d" % (c, a, b, rng.randint(0, 1)))
        nb[2 * c - 1], nb[2 * c] = a, b
        alive |= {2 * c - 1, 2 * c}
    sent = {e: 0 for e in range(1, 5)}
    got = {e: 0 for e in range(1, 5)}
    small = rng.random() < 0.3            # small socket buffers (slow delivery): only together with moderate sizes
    peer = lambda e: ((e - 1) ^ 1) + 1
    for _ in range(nops):
        e = rng.randint(1, 2 * nconn)
        p = peer(e)
        k = rng.random()
        if k < 0.33:
            n = rand_size(rng)
            if small:
                n = min(n, 20000)
            elif nb[e] and rng.random() < 0.15:
                n = rng.choice([200000, 500000, 1000000])
            ops.append("send %d %d" % (e, n))
            sent[e] += n
        elif k < 0.62:
            pend = max(0, sent[p] - got[e])
            m = rng.choice([0, 1, 2, 10, 100, 1000, 4096, 65536, 70000, 100000])
            mn = 0
            if rng.random() < 0.3 and m > 0:
                mn = rng.choice([1, min(m, max(1, pend)), min(m, max(1, pend // 2)), min(m, 3)])
            ops.append("recv %d %d %d" % (e, m, mn) if mn else "recv %d %d" % (e, m))
            got[e] += min(m, pend)
        elif k < 0.72:
            ops.append("drain %d" % e)
            got[e] = sent[p]
        elif k < 0.78:
            ops.append("recvmin2 %d %d %d %d %d %d" % (e, rng.choice([1, 3, 100, 5000]), rng.choice([1, 7, 2000]), rng.choice([0, 0, 1, 50]),
                                                      rng.choice([1, 5, 20]), 1 if rng.random() < 0.25 else 0))
        elif k < 0.90:
            w, v = rng.choice(OPT_TCP)
            if w in (4, 5) and v < 65536 and not small:
                v = 65536
            ops.append("opt 0 %d %d %d" % (e, w, v))
            if w == 0:
                nb[e] = True
        elif k < 0.94:
            ops.append("shutwr %d" % e)
        elif k < 0.97:
            if rng.random() < 0.6:
                ops.append("drain %d" % e)          # an orderly close: nothing unread
            ops.append("close %d" % e)
        else:
            c = (e + 1) // 2
            a, b = rng.random() < 0.5, rng.random() < 0.5
            ops.append("conn %d %d %d %d" % (c, a, b, rng.randint(0, 1)))
            nb[2 * c - 1], nb[2 * c] = a, b
            for x in (2 * c - 1, 2 * c):
                sent[x] = got[x] = 0
    for e in range(1, 2 * nconn + 1):
        if rng.random() < 0.7:
            ops.append("drain %d" % e)
    return ops


def rand_udp_exec(rng, nops):
    ops = []
    nu = rng.choice([2, 3, 3])
    isnb = {}
    infl = {u: 0 for u in range(1, 4)}
    for u in range(1, nu + 1):
        isnb[u] = rng.random() < 0.8
        ops.append("uopen %d %d %d" % (u, 1 if (u == 1 or rng.random() < 0.7) else 0, isnb[u]))
    for _ in range(nops):
        u = rng.randint(1, nu)
        k = rng.random()
        if k < 0.42:
            v = rng.randint(1, nu)
            n = rng.choice([0, 1, 2, 5, 24, 25, 100, 1472, 1473, 9000, 65507, 65508, 70000]) if rng.random() < 0.8 else rng.randint(0, 66000)
            ops.append("usendto %d %d %d" % (u, v, n))
            if n <= 65507:
                infl[v] += 1
        elif k < 0.84:
            if not isnb[u] and infl[u] == 0 and rng.random() < 0.9:
                continue                                  # (a blocking recvFrom without a datagram is refused by the driver after 20 ms)
            ops.append("urecv %d %d" % (u, rng.choice([0, 1, 10, 24, 100, 2000, 65507, 70000, 70000])))
            infl[u] = max(0, infl[u] - 1)
        elif k < 0.93:
            w, v = rng.choice(OPT_UDP)
            ops.append("opt 1 %d %d %d" % (u, w, v))
            if w == 0:
                isnb[u] = True
        elif k < 0.96:
            ops.append("uclose %d" % u)
            infl[u] = 0
        else:
            isnb[u] = rng.random() < 0.8
            ops.append("uopen %d %d %d" % (u, rng.randint(0, 1), isnb[u]))
            infl[u] = 0
    return ops


DIRECTED = [
    # would-block on send: small buffers, nobody reads; then everything is delivered
    ["conn 1 1 1 0", "opt 0 1 4 4096", "opt 0 2 5 4096"] + ["send 1 30000"] * 8 + ["drain 2", "send 1 30000", "close 1", "drain 2"],
    ["conn 1 1 0 1"] + ["send 1 1000000"] * 7 + ["drain 2", "send 1 5", "recv 2 100"],
    # end of stream: close / shutdown, blocking and non-blocking readers
    ["conn 1 0 0 0", "send 1 10", "close 1", "recv 2 4", "recv 2 100", "recv 2 100", "recv 2 100"],
    ["conn 1 0 0 0", "send 1 10", "shutwr 1", "recv 2 100", "recv 2 100", "send 2 7", "recv 1 100", "close 2", "recv 1 100"],
    ["conn 1 1 1 1", "send 1 10", "shutwr 1", "drain 2", "recv 2 5", "send 2 70000", "drain 1", "close 2", "drain 1"],
    # recv with minSize: reached at once, reached by data that arrives during the call, cut short by the end of stream
    ["conn 1 0 0 0", "send 1 100", "recv 2 100 100", "send 1 100", "recv 2 50 10", "recv 2 100 50"],
    ["conn 1 0 0 0", "recvmin2 2 100 50 0 10 0", "recvmin2 2 3 4 20 5 0", "recvmin2 1 1000 1000 0 20 0", "send 1 5", "recvmin2 2 10 10 0 5 0"],
    ["conn 1 0 0 0", "recvmin2 2 100 50 0 10 1", "recv 2 10"],
    ["conn 1 1 1 0", "recvmin2 2 100 50 0 10 0", "drain 2", "recvmin2 1 100 50 0 10 1", "drain 1"],
    # reset: closing with unread data
    ["conn 1 0 1 0", "send 1 100", "close 2", "send 1 10", "send 1 10", "recv 1 10"],
    ["conn 1 1 1 0", "send 1 100", "send 2 50", "close 2", "recv 1 100", "recv 1 100", "send 1 1"],
    # operations on a closed socket
    ["conn 1 0 0 0", "close 1", "send 1 10", "recv 1 10", "opt 0 1 2 0", "close 1", "recv 2 10"],
    # options
    ["conn 1 0 0 0"] + ["opt 0 %d %d %d" % (e, w, v) for e in (1, 2) for (w, v) in OPT_TCP] + ["send 1 100", "drain 2"],
    ["uopen 1 1 0", "uopen 2 0 0"] + ["opt 1 %d %d %d" % (u, w, v) for u in (1, 2) for (w, v) in OPT_UDP] + ["usendto 2 1 10", "urecv 1 100"],
    # datagrams: empty, truncated, too large, several senders, unbound sender
    ["uopen 1 1 1", "uopen 2 0 1", "uopen 3 1 0", "usendto 2 1 20", "usendto 3 1 0", "usendto 3 1 65507", "usendto 2 1 65508", "urecv 1 100", "urecv 1 100",
     "urecv 1 10", "urecv 1 100", "usendto 1 3 5", "urecv 3 0", "urecv 3 5", "usendto 1 2 9", "urecv 2 70000"],
    ["uopen 1 1 1", "uopen 2 1 1"] + ["usendto 2 1 65507"] * 6 + ["urecv 1 70000"] * 7,
]


def huge_execs():
    ex = []
    for s in HUGE:
        ex.append(["conn 1 1 1 0", "sendhuge 1 %d" % s, "drain 2", "send 1 10", "drain 2"])
        ex.append(["conn 1 0 0 0", "send 1 100", "recvhuge 2 %d" % s, "drain 2", "send 2 3", "recv 1 10"])
        ex.append(["conn 1 1 1 0", "send 2 60000", "recvhuge 1 %d" % s, "drain 1"])
        ex.append(["uopen 1 1 1", "uopen 2 1 1", "usendto 2 1 30", "urecvhuge 1 %d" % s, "urecv 1 100"])
        ex.append(["uopen 1 1 0", "uopen 2 1 1", "usendto 2 1 65507", "urecvhuge 1 %d" % s])
        ex.append(["uopen 1 1 1", "uopen 2 1 1", "usendtohuge 2 1 %d" % s, "urecv 1 100", "usendto 2 1 3", "urecv 1 100"])
    return ex


def label_to_op(rng, name, args):
    if name != "Do":
        raise ValueError("unexpected action label %s" % name)
    op, a, b, c, _res = args
    n = b[0] * 65536 + b[1] if isinstance(b, list) else 0
    if op == "conn":
        return "conn %d %d %d %d" % (a, b, c, rng.randint(0, 1))
    if op == "send":
        return "send %d %d" % (a, n)
    if op == "recv":
        return "recv %d %d %d" % (a, n, c) if c else "recv %d %d" % (a, n)
    if op in ("close", "shutwr", "drain", "uclose"):
        return "%s %d" % (op, a)
    if op == "uopen":
        return "uopen %d %d %d" % (a, 1 if rng.random() < 0.85 else 0, c)
    if op == "usendto":
        return "usendto %d %d %d" % (a, c, n)
    if op == "urecv":
        return "urecv %d %d" % (a, n)
    raise ValueError("unexpected operation %s" % op)


def tally_trace(ctx, path):
    """Vacuity counters over what the real code did (notes only, never a verdict)."""
    c = ctx.notes.setdefault("sock_events", {"send": 0, "send_partial": 0, "send_wouldblock": 0, "send_error": 0, "recv": 0, "recv_data": 0,
                                             "recv_short_of_max": 0, "recv_wouldblock": 0, "recv_eof": 0, "recv_error": 0, "recv_minsize": 0,
                                             "recv_eof_before_minsize": 0, "bytes_received": 0, "drained": 0, "skip": 0, "conn": 0, "opt": 0,
                                             "sendto": 0, "sendto_failed": 0, "recvfrom": 0, "recvfrom_datagram": 0, "recvfrom_truncated": 0,
                                             "recvfrom_wouldblock": 0, "huge_calls": 0})
    try:
        with open(path) as f:
            for line in f:
                if '"op":"reset"' in line:
                    continue
                e = json.loads(line)
                op = e["op"]
                if op in ("sendhuge", "recvhuge", "usendtohuge", "urecvhuge"):
                    c["huge_calls"] += 1
                if op in ("send", "sendhuge"):
                    c["send"] += 1
                    if e["r"] < 0:
                        c["send_wouldblock" if e["err"] == 0 else "send_error"] += 1
                    elif op == "send" and 0 < e["r"] < e["n"]:
                        c["send_partial"] += 1
                elif op in ("recv", "recvhuge"):
                    c["recv"] += 1
                    if e["min"] > 0:
                        c["recv_minsize"] += 1
                    if e["r"] > 0:
                        c["recv_data"] += 1
                        c["bytes_received"] += e["r"]
                        if op == "recv" and e["r"] < e["max"]:
                            c["recv_short_of_max"] += 1
                    elif e["r"] == 0:
                        c["recv_eof"] += 1
                        if e["min"] > 1:
                            c["recv_eof_before_minsize"] += 1
                    else:
                        c["recv_wouldblock" if e["err"] == 0 else "recv_error"] += 1
                elif op in ("usendto", "usendtohuge"):
                    c["sendto"] += 1
                    if e["r"] < 0:
                        c["sendto_failed"] += 1
                elif op in ("urecv", "urecvhuge"):
                    c["recvfrom"] += 1
                    if e["r"] >= 0:
                        c["recvfrom_datagram"] += 1
                        if op == "urecv" and e["r"] == e["max"]:
                            c["recvfrom_truncated"] += 1
                    elif e["err"] == 0:
                        c["recvfrom_wouldblock"] += 1
                elif op in c:
                    c[op] += 1
    except (OSError, ValueError, KeyError):
        pass


def check_executions(ctx, binary, executions, tag):
    bad = vlib.check_executions(ctx, binary, executions, tag, SPECDIR, TRACE[0], TRACE[1], key_of, driver_timeout=1500)
    tally_trace(ctx, os.path.join(ctx.work, "trace_%s.ndjson" % tag))
    return bad


def run(ctx):
    binary = build()
    # 1. Layer 1 itself: its obligations hold in the bounded reference model under EVERY outcome the rules allow
    #    (partial sends, short reads, would-block, resets)
    for cfg, tag in ([("SockIO_tcp_small.cfg", "tcp")] if ctx.quick else [("SockIO_tcp.cfg", "tcp"), ("SockIO_udp.cfg", "udp")]):
        r = vlib.tlc(SPECDIR, "SockIO", cfg, workers=4, timeout=1500, xmx="4g")
        ctx.add_tlc("SockIO:" + tag, r)
    # 2. direction A: the state graph of the bounded model (restricted to the outcomes loopback sockets produce for tiny
    #    sizes) replayed edge by edge on real sockets; every step validated against Layer 1
    graphs = [("SockIO_tcp_graph_tiny.cfg", "tcp"), ("SockIO_udp_graph.cfg", "udp")] if ctx.quick else \
             [("SockIO_tcp_graph.cfg", "tcp"), ("SockIO_udp_graph.cfg", "udp")]
    for cfg, tag in graphs:
        dot = os.path.join(ctx.work, "sockio_%s.dot" % tag)
        r = vlib.tlc(SPECDIR, "SockIO", cfg, workers=4, timeout=1500, dump=dot, xmx="4g")
        ctx.add_tlc("SockIO:graph_" + tag, r)
        if r.ok:
            walks, nedges = vlib.graph_walks(dot, max_len=150, seed=ctx.seed)
            os.remove(dot)
            cnt = ctx.notes.setdefault("model_action_edges_replayed", {})
            for w in walks:
                for _name, args in w:
                    cnt[args[0]] = cnt.get(args[0], 0) + 1
            ctx.notes["graph_edges_replayed_" + tag] = nedges
            check_executions(ctx, binary, [[label_to_op(ctx.rng, *st) for st in w] for w in walks], "graph_" + tag)
    # 3. direction B: directed + seeded random histories on real sockets, every step validated by TLC against SockIO
    check_executions(ctx, binary, DIRECTED, "directed")
    check_executions(ctx, binary, huge_execs(), "hugeio")
    nexec, nops = (120, 40) if ctx.quick else (1500, 60)
    check_executions(ctx, binary, [rand_tcp_exec(ctx.rng, nops) for _ in range(nexec)], "random_tcp")
    check_executions(ctx, binary, [rand_udp_exec(ctx.rng, nops) for _ in range(nexec)], "random_udp")
    ctx.assumptions += [
        "real Linux loopback TCP / UDP under the real Socket class; all ports chosen by the kernel (bind to port 0)",
        "payload = a fixed function of sender and stream offset (period 4096) / of sender, datagram number and index: the driver "
        "projects received bytes to (first 24 bytes, index of the first byte that is not the pattern at the receive offset) and, for "
        "datagrams, to the number of the sent datagram they are equal to; TLC checks offsets, counts, addresses and the first bytes",
        "calls that could block forever on a blocking socket (recv without outstanding data, send beyond 150000 outstanding "
        "bytes, recvFrom without a datagram) are refused by the driver (event skip), huge sends are done on non-blocking sockets",
        "shutdown = ::shutdown(SHUT_WR) on getFileDescriptor() (Socket has no shutdown); setNonBlocking observed with fcntl(F_GETFL)",
        "loss of UDP datagrams is allowed (never demanded to arrive); eventual TCP delivery is demanded only by the drain op "
        "(poll + recv, 8 s deadline)",
    ]
    return vlib.finish(ctx, "model_checking",
                       "every edge of the bounded SockIO state graphs (TLC; invariants and action properties checked under all "
                       "allowed outcomes) replayed on real loopback sockets + directed, huge-size (2^31-1 .. 2^33, unbacked "
                       "mappings) and seeded random histories (<= 4 TCP endpoints, 3 UDP sockets, sizes 0..70000 and up to 1 MB "
                       "on non-blocking sockets); every step validated by TLC against SockIO; distinct = distinct op sequences")


def replay(ctx, path):
    binary = build()
    check_executions(ctx, binary, vlib.read_ops_file(path), "replay")
    return vlib.finish(ctx, "model_checking", "replay of one op sequence")
