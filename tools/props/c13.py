"""C13 - Server clients deliver written bytes completely and in order."""
import os
import vlib

SPECDIR = os.path.join(vlib.SPEC, "server")
SRCS = ["src/Socket/Server.cpp", "src/Socket/Socket.cpp", "src/String.cpp", "src/Memory.cpp", "src/Error.cpp", "src/Time.cpp",
        "src/Mutex.cpp", "src/Future.cpp", "src/Thread.cpp", "src/Signal.cpp", "src/Semaphore.cpp", "src/System.cpp", "src/Monitor.cpp"]


def build():
    return vlib.build("drv_server", ["server/drv_server.cpp"], SRCS, libs=["-ldl"])


def outcome(o):
    return o[0] + (str(o[1]) if o[0] == "P" else "")


def label_to_op(name, args):
    if name == "Pair":
        return "pair 1"
    if name == "Write":
        return "write 1 %d %s" % (args[0], outcome(args[1]))
    if name == "LoopWrite":
        return "run O1%s" % outcome(args[0])
    if name == "ServeClosing":
        return "run"
    if name == "Suspend":
        return "suspend 1"
    if name == "Resume":
        return "resume 1"
    if name == "PeerSend":
        return "psend 1 %d" % args[0]
    if name == "PeerClose":
        return "pclose 1"
    if name == "LoopRead":
        return "run I1"
    if name == "PeerRead":
        return "pread 1 %d" % args[0]
    raise ValueError(name)


TAIL = ["resume 1", "run", "run A A A A", "check 1"]     # (the first run consumes a pending interrupt)


def key_of(ops, step):
    hist = ops[:step]
    op = hist[-1].split()[0] if hist else "?"
    feats = []
    if any(o.startswith("suspend") for o in hist):
        feats.append("suspend")
    if any((o.startswith("write") and o.split()[-1][0] in "EZ") or (o.startswith("run") and any(t[0] in "OB" and t[-1] in "EZ" for t in o.split()[1:])) for o in hist):
        feats.append("sendFailure")
    if any(o.startswith("oncb") for o in hist):
        feats.append("nestedOps")
    return "Server.client.%s:%s" % (op, "+".join(feats) or "plain")


def rand_outcome(rng):
    r = rng.random()
    if r < 0.25:
        return "W"
    if r < 0.55:
        return "F"
    if r < 0.93:
        return "P%d" % rng.randint(1, 9)
    return rng.choice("EZ")


def accept_prefix(rng, nc):
    """Clients 1..nc obtained through a listener (harness sockets connect, the loop accepts) instead of Server::pair;
    the onAccepted callback may already write (leaving a backlog) to or suspend the new client."""
    ops = ["listen 1"]
    for c in range(1, nc + 1):
        ops.append("pconnect %d 1" % c)
        k = rng.random()
        if k < 0.7:
            ops.append("oncb " + rng.choice(["writeself %d %s" % (rng.choice([3, 5, 8, 13]), rng.choice(["W", "W", "P1", "P2", "F"])),
                                             "suspendself", "suspendself;writeself 6 W", "writeself 7 P3;suspendself", "nop"]))
        ops.append("run L1")
    return ops


def directed_execs():
    """Short histories around one callback: a write from inside onWrite / onRead / onAccepted that leaves a backlog, a
    suspend or resume from inside a callback - followed by the completeness tail."""
    ex = []
    for o1 in ("P3", "W"):
        for o2 in ("W", "P2", "F"):
            ex.append(["pair 1", "write 1 9 " + o1, "oncb writeself 5 " + o2, "run O1F"] + TAIL)              # next chunk from onWrite
            ex.append(["pair 1", "psend 1 2", "oncb writeself 8 " + o2, "run I1", "run O1" + o1] + TAIL)        # reply from onRead
            ex.append(["pair 1", "write 1 9 " + o1, "oncb suspendself;writeself 4 " + o2, "run O1F", "oncb resumeself", "run T"] + TAIL)
            ex.append(["listen 1", "pconnect 1 1", "oncb writeself 9 " + o1, "run L1", "oncb writeself 4 " + o2, "run O1F"] + TAIL)
            ex.append(["listen 1", "pconnect 1 1", "oncb suspendself;writeself 9 " + o1, "run L1", "psend 1 3", "run A", "run O1" + o2] + TAIL)
    return ex


def rand_exec(rng, nops):
    nc = rng.choice([1, 2, 2, 3])
    ops = ["pair %d" % c for c in range(1, nc + 1)] if rng.random() < 0.75 else accept_prefix(rng, nc)
    for _ in range(nops):
        c = rng.randint(1, nc)
        r = rng.random()
        if r < 0.30:
            ops.append("write %d %d %s" % (c, rng.choice([1, 2, 3, 5, 8, 13, 40]), rand_outcome(rng)))
        elif r < 0.55:
            steps = []
            for _ in range(rng.randint(1, 4)):
                k = rng.random()
                cc = rng.randint(1, nc)
                # A = everything the kernel reports in ONE poll batch (several clients ready together)
                steps.append("O%d%s" % (cc, rand_outcome(rng)) if k < 0.45 else ("I%d" % cc if k < 0.65 else ("B%d%s" % (cc, rand_outcome(rng)) if k < 0.75 else ("A" if k < 0.9 else "T"))))
            for _ in range(rng.choice([0, 0, 0, 1, 1, 2])):
                oc = rng.randint(1, nc)       # callbacks act on any client, also on one whose event is still queued
                ops.append("oncb " + rng.choice(["write %d %d %s" % (oc, rng.randint(1, 6), rand_outcome(rng)), "suspend %d" % oc,
                                                 "resume %d" % oc, "noread", "nop", "writeself %d %s" % (rng.randint(1, 6), rand_outcome(rng)),
                                                 "suspendself", "resumeself"]))
            ops.append("run " + " ".join(steps))
        elif r < 0.63:
            ops.append("suspend %d" % c)
        elif r < 0.71:
            ops.append("resume %d" % c)
        elif r < 0.81:
            ops.append("psend %d %d" % (c, rng.randint(1, 5)))
        elif r < 0.95:
            ops.append("pread %d %d" % (c, rng.choice([1, 2, 3, 8, 100])))
        elif r < 0.97:
            ops.append("pclose %d" % c)
        else:
            ops.append("remove %d" % c)
    for c in range(1, nc + 1):
        ops += ["resume %d" % c]
    ops += ["run A A A A A A"] + ["check %d" % c for c in range(1, nc + 1)]
    return ops


def check_executions(ctx, binary, executions, tag):
    return vlib.check_executions(ctx, binary, executions, tag, SPECDIR, "ByteStreamTrace", "ByteStreamTrace.cfg", key_of)


def run(ctx):
    binary = build()
    cfg = "ClientWriteImpl.cfg" if ctx.quick else "ClientWriteImpl_big.cfg"
    dot = os.path.join(ctx.work, "cw.dot")
    r = vlib.tlc(SPECDIR, "ClientWriteImpl", cfg, workers=8, timeout=1500, dump=dot, xmx="6g")
    ctx.add_tlc("ClientWriteImpl", r)
    if r.ok:
        walks, nedges = vlib.graph_walks(dot, max_len=100, seed=ctx.seed)
        os.remove(dot)
        execs = [[label_to_op(*st) for st in w] + TAIL for w in walks]
        ctx.notes["graph_edges_replayed"] = nedges
        check_executions(ctx, binary, execs, "graph")
    nexec, nops = (600, 40) if ctx.quick else (8000, 60)
    execs = directed_execs() + [rand_exec(ctx.rng, nops) for _ in range(nexec)]
    check_executions(ctx, binary, execs, "random")
    return vlib.finish(ctx, "model_checking",
                       "every edge of the ClientWriteImpl state graph (all send outcome sequences x write sizes x suspend/resume x peer "
                       "activity within the bounds) replayed on a real Server client over the scripted OS shim + seeded random "
                       "histories with 1-2 clients and nested writes in callbacks; every call, intercepted send and callback validated "
                       "by TLC against ByteStream; distinct = distinct op sequences")


def replay(ctx, path):
    binary = build()
    check_executions(ctx, binary, vlib.read_ops_file(path), "replay")
    return vlib.finish(ctx, "model_checking", "replay")
