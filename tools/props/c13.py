"""C13 - Server clients deliver written bytes completely and in order."""
import os
import vlib

SPECDIR = os.path.join(vlib.SPEC, "server")
SRCS = ["src/Socket/Server.cpp", "src/Socket/Socket.cpp", "src/String.cpp", "src/Memory.cpp", "src/Error.cpp", "src/Time.cpp",
        "src/Mutex.cpp", "src/Future.cpp", "src/Thread.cpp", "src/Signal.cpp", "src/Semaphore.cpp", "src/System.cpp", "src/Monitor.cpp"]


def build():
    return vlib.build("drv_server", ["server/drv_server.cpp"], SRCS, libs=["-ldl"])


def outcome(o):
    return o[0] + (str(o[1]) if o[0] == "P" else "")


def label_to_op(name, args):
    if name == "Pair":
        return "pair 1"
    if name == "Write":
        return "write 1 %d %s" % (args[0], outcome(args[1]))
    if name == "LoopWrite":
        return "run O1%s" % outcome(args[0])
    if name == "ServeClosing":
        return "run"
    if name == "Suspend":
        return "suspend 1"
    if name == "Resume":
        return "resume 1"
    if name == "PeerSend":
        return "psend 1 %d" % args[0]
    if name == "PeerClose":
        return "pclose 1"
    if name == "LoopRead":
        return "run I1"
    if name == "PeerRead":
        return "pread 1 %d" % args[0]
    raise ValueError(name)


TAIL = ["resume 1", "run", "run A A A A", "check 1"]     # (the first run consumes a pending interrupt)


def key_of(ops, step):
    hist = ops[:step]
    op = hist[-1].split()[0] if hist else "?"
    feats = []
    if any(o.startswith("suspend") for o in hist):
        feats.append("suspend")
    if any((o.startswith("write") and o.split()[-1][0] in "EZ") or (o.startswith("run") and any(t[0] in "OB" and t[-1] in "EZ" for t in o.split()[1:])) for o in hist):
        feats.append("sendFailure")
    if any(o.startswith("oncb") for o in hist):
        feats.append("nestedOps")
    return "Server.client.%s:%s" % (op, "+".join(feats) or "plain")


def rand_outcome(rng):
    r = rng.random()
    if r < 0.25:
        return "W"
    if r < 0.55:
        return "F"
    if r < 0.93:
        return "P%d" % rng.randint(1, 9)
    return rng.choice("EZ")


def rand_exec(rng, nops):
    nc = rng.choice([1, 2, 2, 3])
    ops = ["pair %d" % c for c in range(1, nc + 1)]
    for _ in range(nops):
        c = rng.randint(1, nc)
        r = rng.random()
        if r < 0.30:
            ops.append("write %d %d %s" % (c, rng.choice([1, 2, 3, 5, 8, 13, 40]), rand_outcome(rng)))
        elif r < 0.55:
            steps = []
            for _ in range(rng.randint(1, 4)):
                k = rng.random()
                cc = rng.randint(1, nc)
                # A = everything the kernel reports in ONE poll batch (several clients ready together)
                steps.append("O%d%s" % (cc, rand_outcome(rng)) if k < 0.45 else ("I%d" % cc if k < 0.65 else ("B%d%s" % (cc, rand_outcome(rng)) if k < 0.75 else ("A" if k < 0.9 else "T"))))
            for _ in range(rng.choice([0, 0, 0, 1, 1, 2])):
                oc = rng.randint(1, nc)       # callbacks act on any client, also on one whose event is still queued
                ops.append("oncb " + rng.choice(["write %d %d %s" % (oc, rng.randint(1, 6), rand_outcome(rng)), "suspend %d" % oc,
                                                 "resume %d" % oc, "noread", "nop"]))
            ops.append("run " + " ".join(steps))
        elif r < 0.63:
            ops.append("suspend %d" % c)
        elif r < 0.71:
            ops.append("resume %d" % c)
        elif r < 0.81:
            ops.append("psend %d %d" % (c, rng.randint(1, 5)))
        elif r < 0.95:
            ops.append("pread %d %d" % (c, rng.choice([1, 2, 3, 8, 100])))
        elif r < 0.97:
            ops.append("pclose %d" % c)
        else:
            ops.append("remove %d" % c)
    for c in range(1, nc + 1):
        ops += ["resume %d" % c]
    ops += ["run A A A A A A"] + ["check %d" % c for c in range(1, nc + 1)]
    return ops


def check_executions(ctx, binary, executions, tag):
    return vlib.check_executions(ctx, binary, executions, tag, SPECDIR, "ByteStreamTrace", "ByteStreamTrace.cfg", key_of)


def run(ctx):
    binary = build()
    cfg = "ClientWriteImpl.cfg" if ctx.quick else "ClientWriteImpl_big.cfg"
    dot = os.path.join(ctx.work, "cw.dot")
    r = vlib.tlc(SPECDIR, "ClientWriteImpl", cfg, workers=8, timeout=1500, dump=dot, xmx="6g")
    ctx.add_tlc("ClientWriteImpl", r)
    if r.ok:
        walks, nedges = vlib.graph_walks(dot, max_len=100, seed=ctx.seed)
        os.remove(dot)
        execs = [[label_to_op(*st) for st in w] + TAIL for w in walks]
        ctx.notes["graph_edges_replayed"] = nedges
        check_executions(ctx, binary, execs, "graph")
    nexec, nops = (600, 40) if ctx.quick else (8000, 60)
    execs = [rand_exec(ctx.rng, nops) for _ in range(nexec)]
    check_executions(ctx, binary, execs, "random")
    return vlib.finish(ctx, "model_checking",
                       "every edge of the ClientWriteImpl state graph (all send outcome sequences x write sizes x suspend/resume x peer "
                       "activity within the bounds) replayed on a real Server client over the scripted OS shim + seeded random "
                       "histories with 1-2 clients and nested writes in callbacks; every call, intercepted send and callback validated "
                       "by TLC against ByteStream; distinct = distinct op sequences")


def replay(ctx, path):
    binary = build()
    check_executions(ctx, binary, vlib.read_ops_file(path), "replay")
    return vlib.finish(ctx, "model_checking", "replay")
