"""C18 - Text codecs and numeric conversions are exact inverses and bounds-safe.

Executable-specification check: spec/text/Utf8.tla, Decimal.tla, Base64.tla define the codecs in TLA+ (TLC checks their
own inverse laws: Utf8Check on all 1,114,112 code points, CodecSelf on bounded domains); harness/codec/drv_codec.cpp runs
the real Unicode/String functions on exact-size heap buffers under ASan/UBSan and logs batches of results that TLC
validates against the specification functions (CodecTrace.tla)."""
import os
import vlib
from vlib import hexs
from props.c17 import check_execs as _check_execs      # shared helper (parallel chunked trace validation)

SPECDIR = os.path.join(vlib.SPEC, "text")


def build():
    return vlib.build("drv_codec", ["codec/drv_codec.cpp"], ["src/String.cpp", "src/Memory.cpp"])


def key_of(ops, step):
    op = ops[step - 1].split() if 0 < step <= len(ops) else ["?"]
    o = op[0]
    if o == "cps":
        return "Unicode.codepoints"
    if o in ("bs", "bsall", "sweep"):
        return "Unicode.bytes"
    if o in ("num", "parse"):
        return "String.%s:%s" % (o, op[1])
    if o in ("hex", "hexall"):
        return "String.fromHex"
    if o in ("b64", "b64all", "b64sweep"):
        return "String.fromBase64:encoding"
    if o in ("b64raw", "b64raw4"):
        hi = any(int(t[i:i + 2], 16) >= 128 for t in op[1:] if t.startswith("x") for i in range(1, len(t) - 1, 2))
        return "String.fromBase64:arbitrary%s" % (":byte>=0x80" if hi else "")
    return o


def utf8(cp):
    """input generator only (the expected values come from Utf8.tla)"""
    if cp < 0x80:
        return [cp]
    if cp < 0x800:
        return [0xC0 | cp >> 6, 0x80 | cp & 63]
    if cp < 0x10000:
        return [0xE0 | cp >> 12, 0x80 | (cp >> 6) & 63, 0x80 | cp & 63]
    return [0xF0 | cp >> 18, 0x80 | (cp >> 12) & 63, 0x80 | (cp >> 6) & 63, 0x80 | cp & 63]


B64CH = b"ABCDEFGHIJKLMNOPQRSTUVWXYZabcdefghijklmnopqrstuvwxyz0123456789+/"


def limbs(v, width):
    v &= (1 << width) - 1
    return " ".join(str((v >> (16 * i)) & 0xFFFF) for i in range(width // 16))


def gen(ctx):
    rng = ctx.rng
    quick = ctx.quick
    execs = []
    st = {}

    def grouped(lines, per):
        for i in range(0, len(lines), per):
            execs.append(lines[i:i + per])

    # --- A. every code point: 128 per event, 32 events per execution
    lines = ["cps %d 128" % f for f in range(0, 0x110000, 128)]
    lines += ["cps 1114112 64", "cps 2097088 128", "cps 67108800 128", "cps 2147483500 120"]     # above U+10FFFF
    st["code_points"] = 0x110000
    grouped(lines, 32)
    # --- B. arbitrary byte strings
    lines = ["bs x", "bsall 1", "sweep 0", "sweep 1", "sweep 2", "sweep 3"]
    lines += ["bsall 2 %d" % b for b in range(256)]
    lead = [0x41, 0x80, 0xBF, 0xC0, 0xC1, 0xC2, 0xDF, 0xE0, 0xE1, 0xED, 0xEF, 0xF0, 0xF1, 0xF4, 0xF5, 0xF7, 0xF8, 0xFF]
    second = [0x00, 0x7F, 0x80, 0x8F, 0x90, 0x9F, 0xA0, 0xBF, 0xC0, 0xC2, 0xE0, 0xF0, 0xFF]
    if not quick:                                           # thorough: ALL 2^24 strings of length 3 validated by TLC
        lead = list(range(256))
        second = list(range(256))
    lines += ["bsall 3 %d %d" % (a, b) for a in lead for b in second]
    st["byte_strings_len<=2"] = 1 + 256 + 65536
    st["byte_strings_len3_validated"] = 256 * len(lead) * len(second)
    alpha = [0x00, 0x41, 0x7F, 0x80, 0x9F, 0xA0, 0xBF, 0xC0, 0xC2, 0xDF, 0xE0, 0xED, 0xEF, 0xF0, 0xF4, 0xF5, 0xF8, 0xFF]
    nl = 120 if quick else 1500
    cnt = 0
    for _ in range(nl):
        toks = []
        for _ in range(32):
            k = rng.random()
            if k < 0.4:                                     # random bytes from the class alphabet
                s = [rng.choice(alpha) for _ in range(rng.randint(4, 10))]
            else:                                           # valid text, possibly damaged
                s = []
                for _ in range(rng.randint(1, 4)):
                    s += utf8(rng.choice([rng.randint(0, 0x7F), rng.randint(0x80, 0x7FF), rng.randint(0x800, 0xFFFF),
                                          rng.randint(0x10000, 0x10FFFF), 0x7FF, 0x800, 0xD7FF, 0xD800, 0xFFFF, 0x10000, 0x10FFFF]))
                if k < 0.6:
                    s = s[:rng.randint(0, len(s))]           # truncated
                elif k < 0.75:
                    s[rng.randrange(len(s))] = rng.choice(alpha)
                elif k < 0.8:
                    s = s[1:]
            toks.append(hexs(s))
            cnt += 1
        lines.append("bs " + " ".join(toks))
    st["byte_strings_sampled_longer"] = cnt
    grouped(lines, 40)
    # --- C. integers
    lines = []
    vals = {}
    for kind, width, signed in (("i32", 32, True), ("u32", 32, False), ("i64", 64, True), ("u64", 64, False)):
        lo, hi = (-(1 << (width - 1)), (1 << (width - 1)) - 1) if signed else (0, (1 << width) - 1)
        vs = {lo, lo + 1, hi, hi - 1, 0, 1, 9, 10, 11, 99, 100, 101}
        for k in range(width + 1):
            for d in (-1, 0, 1):
                for sgn in (1, -1):
                    v = sgn * (1 << k) + d
                    if lo <= v <= hi:
                        vs.add(v)
        for k in range(1, 20):                               # powers of ten (digit count boundaries)
            for d in (-1, 0, 1):
                for sgn in (1, -1):
                    v = sgn * 10 ** k + d
                    if lo <= v <= hi:
                        vs.add(v)
        for _ in range(300 if quick else 5000):
            b = rng.randint(1, width)
            v = rng.getrandbits(b)
            if signed and rng.random() < 0.5:
                v = -v
            if lo <= v <= hi:
                vs.add(v)
        vals[kind] = len(vs)
        for v in sorted(vs):
            lines.append("num %s %s" % (kind, limbs(v, width)))
            lines.append("parse %s %s" % (kind, hexs(str(v).encode())))
    st["integers"] = vals
    grouped(lines, 120)
    # --- D. hex
    lines = ["hexall", "hex x"]
    for _ in range(20 if quick else 300):
        lines.append("hex " + " ".join(hexs([rng.getrandbits(8) for _ in range(rng.choice([1, 2, 2, 3, 4, 7, 8, 16, 33]))])
                                       for _ in range(24)))
    grouped(lines, 60)
    # --- E. base64
    lines = ["b64 x", "b64all 1"] + ["b64all 2 %d" % b for b in range(256)]
    reps = [0, 1, 3, 4, 0x0F, 0x10, 0x3F, 0x40, 0x7F, 0x80, 0xC0, 0xFB, 0xFC, 0xFF]
    if not quick:
        reps = list(range(256))                             # thorough: the encodings of ALL 2^24 three-byte strings via TLC
    lines += ["b64all 3 %d %d" % (a, b) for a in reps for b in reps]
    st["base64_len3_validated"] = 256 * len(reps) ** 2
    for _ in range(40 if quick else 600):
        lines.append("b64 " + " ".join(hexs([rng.getrandbits(8) for _ in range(rng.randint(4, 48))]) for _ in range(12)))
    sweep = [0, 1, 0x7F, 0x80, 0xFE, 0xFF] if quick else list(range(256))
    lines += ["b64sweep %d %d" % (a, a) for a in sweep] if quick else ["b64sweep %d %d" % (a, a + 15) for a in range(0, 256, 16)]
    st["base64_len3_roundtrip_sweep"] = 65536 * len(sweep)
    grouped(lines, 50)
    # arbitrary text: without bytes >= 0x80 ...
    low = [ord(c) for c in "AQz09+/=-_{~ \n"] + [0, 0x7B, 0x7F, 0x3C, 0x40, 0x5B, 0x60]
    lines = ["b64raw4 %s %d" % (hexs([ord(c) for c in "Qz+={- @"] + [0x7F]), i) for i in range(9)]
    for _ in range(30 if quick else 400):
        toks = []
        for _ in range(24):
            if rng.random() < 0.5:
                s = [rng.choice(low) for _ in range(rng.choice([0, 1, 2, 3, 4, 4, 5, 8, 8, 12]))]
            else:                                           # a real encoding with one character damaged
                raw = [rng.getrandbits(8) for _ in range(rng.randint(1, 9))]
                s = list(b64e(raw))
                s[rng.randrange(len(s))] = rng.choice(low)
            toks.append(hexs(s))
        lines.append("b64raw " + " ".join(toks))
    grouped(lines, 30)
    # alphabet characters only, EVERY length 0..70 (not only multiples of four: a decoder that sizes its result from the
    # length must not write behind it for a missing or partial last group), and real encodings with their padding cut off
    ab = [ord(c) for c in "ABCDEFGHIJKLMNOPQRSTUVWXYZabcdefghijklmnopqrstuvwxyz0123456789+/"]
    lines = []
    for n in range(0, 71):
        toks = [hexs([rng.choice(ab) for _ in range(n)]) for _ in range(2 if quick else 6)]
        raw = [rng.getrandbits(8) for _ in range(max(1, n * 3 // 4))]
        enc = list(b64e(raw))
        while enc and enc[-1] == ord("="):
            enc.pop()
        toks.append(hexs(enc))
        lines.append("b64raw " + " ".join(toks))
    for k in range(0, len(lines), 8):
        execs.append(lines[k:k + 8])                         # small executions: a sanitizer report ends only that one
    st["base64_alphabet_only_lengths"] = 71
    # ... and with them (each first symbol its own execution: a sanitizer report ends only that one)
    alpha9 = [ord("Q"), ord("z"), ord("+"), ord("="), ord("{"), ord("-"), 0x80, 0xFF, 0x00]
    for i in range(9):
        execs.append(["b64raw4 %s %d" % (hexs(alpha9), i)])
    st["base64_raw4"] = 2 * 9 ** 4
    high = low + [0x80, 0x81, 0xBF, 0xC0, 0xFE, 0xFF, 0xFA, 0xDB]
    for _ in range(4 if quick else 40):
        lines = []
        for _ in range(10):
            toks = []
            for _ in range(24):
                if rng.random() < 0.5:
                    s = [rng.choice(high) for _ in range(rng.choice([1, 2, 3, 4, 4, 5, 8, 8, 12]))]
                else:
                    raw = [rng.getrandbits(8) for _ in range(rng.randint(1, 9))]
                    s = list(b64e(raw))
                    s[rng.randrange(len(s))] = rng.choice(high[-8:])
                toks.append(hexs(s))
            lines.append("b64raw " + " ".join(toks))
        execs.append(lines)
    return execs, st


def b64e(raw):
    """input generator only (Base64.tla decides what is an encoding and what it decodes to)"""
    out = []
    for i in range(0, len(raw), 3):
        g = raw[i:i + 3]
        v = (g[0] << 16) | ((g[1] if len(g) > 1 else 0) << 8) | (g[2] if len(g) > 2 else 0)
        q = [B64CH[(v >> 18) & 63], B64CH[(v >> 12) & 63], B64CH[(v >> 6) & 63], B64CH[v & 63]]
        if len(g) < 3:
            q[3] = 61
        if len(g) < 2:
            q[2] = 61
        out += q
    return out


EXPLANATION = (
    "Executable-specification comparison. Utf8.tla (Encode by range, Decode, LengthOf, Canonical/Structural validity), "
    "Decimal.tla (fixed-width integers as 16-bit limb vectors, decimal text by repeated division and its inverse) and "
    "Base64.tla (RFC 4648 Enc/Dec/IsEncoding, base16) are TLA+ definitions evaluated by TLC. TLC checks the specification's "
    "own inverse laws (Decode(Encode(cp)) = cp on all 1,114,112 code points; Dec(Enc(b)) = b and FromDecimal(ToDecimal(v)) = v "
    "on bounded domains; RFC 4648 section 10 vectors). The driver calls the real Unicode/String functions on exact-size heap "
    "buffers under ASan+UBSan (bounds clause) and logs results in batches; CodecTrace.tla makes TLC recompute every expected "
    "value. Where the property is silent (arbitrary bytes: value of fromString, isValid between canonical and structural, "
    "result of fromBase64 on non-encodings) only memory safety is demanded; the implementation-shaped expectation is "
    "compared as Layer-2 drift. states = trace positions + specification self-check states.")


def run(ctx):
    binary = build()
    r = vlib.tlc(SPECDIR, "Utf8Check", "Utf8Check.cfg", workers=4, timeout=900)
    ctx.add_tlc("Utf8Check", r)
    if r.ok and r.distinct != 0x110000:
        ctx.broken.append("Utf8Check explored %d states, expected 1114112" % r.distinct)
    r = vlib.tlc(SPECDIR, "CodecSelf", "CodecSelf.cfg", workers=4, timeout=600)
    ctx.add_tlc("CodecSelf", r)
    if ctx.broken:
        return vlib.finish(ctx, "other", "specification self-check failed", explanation=EXPLANATION)
    execs, st = gen(ctx)
    ctx.notes["generated"] = st
    _check_execs(ctx, binary, execs, "codec", "CodecTrace", "CodecTrace.cfg", key_of, nchunks=8 if ctx.quick else 96,
                 xmx="3g", tlc_timeout=2400, driver_timeout=2400)
    part3 = "a class-representative part (256 x %d prefixes) of length 3" if ctx.quick else "ALL 2^24 of length 3 (%d prefixes x 256)"
    rule = ("toString/fromString/length/isValid on all 1,114,112 code points (+ values above U+10FFFF), on all byte strings of "
            "length <= 2 and " + part3 % (st["byte_strings_len3_validated"] // 256) + " validated by TLC (all 2^24 of length 3 also "
            "executed under ASan with the isValid count checked), sampled longer strings; fromInt/UInt/Int64/UInt64 + toInt... on "
            "all +-2^k(+-1), +-10^k(+-1), limits and seeded random values as limb vectors; fromHex on all bytes + sampled strings; "
            "fromBase64 on the encodings of all byte strings of length <= 2, %d of length 3 validated by TLC (+ driver round-trip "
            "sweep over %d), sampled longer ones, and arbitrary text incl. all length-4 strings over two 9-symbol alphabets "
            "(bytes >= 0x80, '=', invalid characters); distinct = distinct driver operations (each a batch of up to 729 inputs)"
            % (st["base64_len3_validated"], st["base64_len3_roundtrip_sweep"]))
    kinds = {}
    for e in execs:
        for o in e:
            k = o.split()[0]
            kinds[k] = kinds.get(k, 0) + 1
    ctx.notes["ops_by_kind"] = kinds
    return vlib.finish(ctx, "other", rule, explanation=EXPLANATION)


def replay(ctx, path):
    binary = build()
    _check_execs(ctx, binary, vlib.read_ops_file(path), "replay", "CodecTrace", "CodecTrace.cfg", key_of, nchunks=1)
    return vlib.finish(ctx, "other", "replay of one op sequence", explanation=EXPLANATION)
