"""X02 (extra) - Process life cycle: isRunning, kill, join, Process::wait over several children, Process::interrupt,
environment variables.

Layer 1   spec/text/ProcLife.tla          (property level; stand-alone model checked, its graph replayed)
trace     spec/text/ProcLifeTrace.tla     (events of the real Process, harness/proclife, judged against ProcLife)
Layer 2   spec/text/ProcWaitImpl.tla      (POSIX implementation of wait/interrupt/join/kill/start with an interrupting
                                           thread and terminating children; refinement, no lost interrupt, no stuck
                                           wait, liveness; its graph projected onto the call level and replayed)
"""
import glob
import json
import os
import re
import shutil
from concurrent.futures import ThreadPoolExecutor
import vlib
from vlib import hexs

SPECDIR = os.path.join(vlib.SPEC, "text")
NH = 3
NAMES = [b"VX_A", b"VX_B", b"VX_C"]
BADNAMES = [b"", b"VX=Q"]
VALUES = [b"", b"1", b"two", b"a=b", b"x y", b"-", b"0123456789" * 30]
CODES = [0, 1, 7, 255]
ATN = {0: "sync", 1: "asyncRelease", 2: "asyncInterrupt", 3: "asyncReleaseInterrupt"}


def build():
    drv = vlib.build("drv_proclife", ["proclife/drv_proclife.cpp"],
                     ["src/Process.cpp", "src/File.cpp", "src/Directory.cpp", "src/Memory.cpp", "src/String.cpp"])
    child = vlib.build("child_proclife", ["proclife/child_proclife.cpp"], san=False)
    return drv, child


# ------------------------------------------------------------------------------------------------ ops
# internal form: tuples  ("start", c, form, m, code) ("release", c) ("join", c, at, ak, delay) ("kill", c)
#                        ("wait", at, ak, delay, [c...]) ("interrupt",) ("setenv", name, val) ("getenv", name, dflt) ("getenvs",)

def op_line(o):
    k = o[0]
    if k == "start":
        return "start %d %d %d %d" % o[1:]
    if k in ("release", "kill"):
        return "%s %d" % (k, o[1])
    if k == "join":
        return "join %d %d %d %d" % o[1:]
    if k == "wait":
        return "wait %d %d %d %d%s" % (o[1], o[2], o[3], len(o[4]), "".join(" %d" % c for c in o[4]))
    if k in ("setenv", "getenv"):
        return "%s %s %s" % (k, hexs(o[1]), hexs(o[2]))
    return k


def make_safe(ops):
    """The generators know nothing about results.  This pass makes every sequence hang-free WHATEVER the implementation
    answers where Layer 1 is nondeterministic: it tracks what is definitely known (phase of every child; interrupt
    pending yes / no / unknown) and gives every join / wait that is not guaranteed to return an asynchronous action that
    guarantees it (join: release of the child; wait: an interrupt).  It is a generator aid, not an oracle."""
    ph = {c: "idle" for c in range(1, NH + 1)}
    intr = "F"
    out = []

    def release(c):
        if ph.get(c) == "running":
            ph[c] = "exited"

    for o in ops:
        k = o[0]
        if k == "start":
            if ph[o[1]] == "idle":
                ph[o[1]] = "running"
        elif k == "release":
            release(o[1])
        elif k == "kill":
            ph[o[1]] = "idle"
        elif k == "interrupt":
            intr = "T"
        elif k == "join":
            _, c, at, ak, delay = o
            if ph[c] == "running" and not (at in (1, 3) and ak == c):
                at, ak, delay = 1, c, delay or 12
                o = ("join", c, at, ak, delay)
            if at in (1, 3):
                release(ak)
            if at in (2, 3):
                intr = "T" if intr == "T" else "U"
            if ph[c] != "idle":
                ph[c] = "idle"
        elif k == "wait":
            _, at, ak, delay, s = o
            done = any(ph[c] == "exited" for c in s)
            sure = done or intr == "T" or at in (2, 3) or (at == 1 and ak in s and ph[ak] == "running")
            if not sure:
                if at == 1:
                    at = 3
                else:
                    at, ak, delay = 2, 0, delay or 12
                o = ("wait", at, ak, delay, s)
            foreign = any(ph[c] == "exited" for c in ph if c not in s)
            if at in (1, 3):
                release(ak)
            if at in (2, 3):
                intr = "U"
            elif intr == "T":
                intr = "U" if (done or (s and foreign) or at == 1) else "F"
        out.append(o)
    return out


def to_lines(ops):
    return [op_line(o) for o in make_safe(ops)]


def _phases_before(ops, step):
    """Phase of every child before op number <step> (1-based) of an execution given as op lines; deterministic, because
    make_safe guarantees that every join returns."""
    ph = {c: "idle" for c in range(1, NH + 1)}

    def release(c):
        if ph.get(c) == "running":
            ph[c] = "exited"
    for line in ops[:max(0, step - 1)]:
        t = line.split()
        if t[0] == "start":
            if ph[int(t[1])] == "idle":
                ph[int(t[1])] = "running"
        elif t[0] == "release":
            release(int(t[1]))
        elif t[0] == "kill":
            ph[int(t[1])] = "idle"
        elif t[0] == "join":
            if int(t[2]) in (1, 3):
                release(int(t[3]))
            ph[int(t[1])] = "idle"
        elif t[0] == "wait":
            if int(t[1]) in (1, 3):
                release(int(t[2]))
    return ph


def key_of(ops, step):
    """Signature of a failing step: the entry point and the shape of the call that matters."""
    t = ops[step - 1].split() if 0 < step <= len(ops) else ["?"]
    if t[0] == "setenv":
        name = bytes.fromhex(t[1][1:])
        bad = name == b"" or b"=" in name
        return "Process.setEnvironmentVariable:" + ("invalidName" if bad else "emptyValue" if t[2] == "x" else "value")
    if t[0] == "wait":
        ph = _phases_before(ops, step)
        if int(t[1]) in (1, 3):
            if ph.get(int(t[2])) == "running":
                ph[int(t[2])] = "exited"             # the asynchronous release may have taken effect before wait looked
        s = [int(x) for x in t[5:]]
        if any(ph[c] == "exited" for c in s) and any(ph[c] == "exited" for c in ph if c not in s):
            return "Process.wait:terminatedChildHiddenByUnlistedTerminatedChild"
        return "Process.wait:%s:n=%s" % (ATN.get(int(t[1]), "?"), "0" if t[4] == "0" else "1+")
    if t[0] == "join":
        return "Process.join:%s" % ATN.get(int(t[2]), "?")
    if t[0] == "start":
        return "Process.start:form%s:env%s" % (t[2], t[3])
    return "Process." + t[0]


# ------------------------------------------------------------------------------------------------ binding step
def _sweep_scratch():
    for d in glob.glob(os.path.join(vlib.BUILD, "proclife.*")):
        try:
            pid = int(d.rsplit(".", 1)[1])
            os.kill(pid, 0)
        except ProcessLookupError:
            shutil.rmtree(d, ignore_errors=True)
        except (ValueError, PermissionError):
            pass


def _stats(ctx, trace):
    """Vacuity counters from the recorded events."""
    c = ctx.cov

    def inc(k, n=1):
        c[k] = c.get(k, 0) + n
    with open(trace) as f:
        for line in f:
            if '"op":"reset"' in line:
                continue
            e = json.loads(line)
            op = e["op"]
            inc("ev." + op)
            if op == "wait":
                inc("wait.%s.ret%s%s" % ("empty" if not e["set"] else "n%d" % len(e["set"]), "0" if e["r"] == 0 else "P",
                                        ".fired" if e["fired"] else ""))
                inc("wait.at=" + e["at"] + ("+interrupt" if e["at2"] != "none" else ""))
            elif op == "join":
                inc("join.r%d%s" % (e["r"], ".fired" if e["fired"] else ""))
            elif op == "start":
                inc("start.%s.form%d.env%d" % ("ok" if e["r"] else "refused", e["form"], e["m"]))
            elif op == "kill":
                inc("kill.r%d" % e["r"])
            elif op == "setenv":
                inc("setenv.r%d.%s" % (e["r"], "empty" if e["val"] == "" else "value"))


def check_executions(ctx, binaries, executions, tag, nproc=4, timeout=1200):
    """executions (lists of op lines) -> real Process via the driver (nproc driver processes side by side, each with its
    own children and scratch directory) -> ndjson trace -> TLC trace specification ProcLifeTrace."""
    drv, child = binaries
    n = len(executions)
    if not n:
        return set()
    if len(ctx.violations) >= 12:
        # the verdict is clear already (a broken tree makes every other execution hang for the watchdog's 4 s)
        ctx.notes.setdefault("phases_skipped_after_many_violations", []).append(tag)
        return set()
    nproc = max(1, min(nproc, n // 8 or 1))
    bounds = [n * i // nproc for i in range(nproc + 1)]
    parts = [(bounds[i], executions[bounds[i]:bounds[i + 1]]) for i in range(nproc)]

    def one(part):
        off, ex = part
        tp = os.path.join(ctx.work, "trace_%s_%d.ndjson" % (tag, off))
        dr = vlib.run_driver(drv, ex, tp, timeout=timeout, args=[vlib.BUILD, child])
        return off, tp, dr
    with ThreadPoolExecutor(max_workers=nproc) as pool:
        results = list(pool.map(one, parts))
    trace = os.path.join(ctx.work, "trace_%s.ndjson" % tag)
    crashes = []
    steps = []          # per trace line: (execution index, step); every op logs exactly one event
    with open(trace, "w") as out:
        for off, tp, dr in results:
            ex, step = off - 1, 0
            with open(tp) as f:
                for line in f:
                    if '"op":"reset"' in line:
                        ex, step = ex + 1, 0
                    else:
                        step += 1
                    steps.append((ex, step))
                    out.write(line)
            os.remove(tp)
            crashes += [(off + idx, txt, kind) for idx, txt, kind in dr.crashes]
    ctx.evaluations += len(steps)
    _stats(ctx, trace)
    logged = {}
    for ex, st in steps:
        logged[ex] = max(logged.get(ex, 0), st)
    crashed = set()
    for idx, txt, kind in crashes:
        crashed.add(idx)
        ops = executions[idx]
        step = min(len(ops), logged.get(idx, 0) + 1)
        p = ctx.save_replay("%s_crash_%d.ops" % (tag, idx), ["reset"] + ops[:step])
        if txt.rfind("DRIVER-PHASE drain-begin") > txt.rfind("DRIVER-PHASE drain-end"):
            # the driver's clean-up between two executions: Process::interrupt(); Process::wait(0, 0);
            ctx.report("Process.wait:interruptThenWaitBetweenExecutions:" + kind, p,
                       "driver %s in interrupt(); wait(0, 0) after execution %d: ops=%s\n%s" % (kind, idx, ops[-12:], txt[-1800:]))
            continue
        ctx.report("%s:%s" % (key_of(ops, step), kind), p,
                   "driver %s at step %d of execution %d: ops=%s\n%s" % (kind, step, idx, ops[:step][-12:], txt[-1800:]))
    r, mism, done = vlib.validate_trace(SPECDIR, "ProcLifeTrace", "ProcLifeTrace.cfg", trace, timeout=timeout)
    ctx.add_tlc("trace:" + tag, r, must_pass=False)
    for pr in r.printed:
        if pr.startswith('"TRACE-DONE"'):
            ctx.cov["ops_that_demonstrably_blocked"] = ctx.cov.get("ops_that_demonstrably_blocked", 0) + int(pr.split(",")[-1])
    if r.violation:
        ctx.broken.append("trace spec ProcLifeTrace: invariant violated / TLC error: %s" % r.violation[:1200])
    if not done and not r.broken and not r.violation:
        ctx.broken.append("trace validation of %s did not reach the end of the trace" % tag)
    bad = set()
    for line, why in mism:
        ex, step = steps[line - 1]
        if ex in bad or ex >= n:
            continue
        bad.add(ex)
        ops = executions[ex]
        p = ctx.save_replay("%s_mismatch_%d.ops" % (tag, ex), ["reset"] + ops[:step])
        ctx.report(key_of(ops, step), p, "Layer-1 mismatch at step %d (%s) of execution %d: ops=%s" % (step, why, ex, ops[:step][-12:]))
    ctx.traces += len(set(ex for ex, _ in steps) - bad - crashed)
    for e in executions:
        if len(e) >= 2:
            ctx.distinct.add(hash(tuple(e)))
    ctx.sample({"source": tag, "ops": executions[len(executions) // 2][:12]})
    _sweep_scratch()
    return bad | crashed


# ------------------------------------------------------------------------------------------------ generators
def l1_label_to_op(name, args, k):
    """Do(op, c, x, m, set, name, val) of the ProcLife graph -> driver op (k varies the forms / delays)."""
    op, c, x, m, s, nm, val = args
    if op == "start":
        return ("start", c, k % 2, m, x)
    if op in ("release", "kill"):
        return (op, c)
    if op == "join":
        return ("join", c, 0, 0, 0)
    if op == "wait":
        return ("wait", 0, 0, 0, list(s))
    if op == "interrupt":
        return ("interrupt",)
    if op in ("setenv", "getenv"):
        return (op, nm.encode(), val.encode())
    return ("getenvs",)


def project_l2_walk(walk, k):
    """A walk of the ProcWaitImpl graph (fine grained) -> call-level driver ops: Interrupt / Release outside a call become
    synchronous ops, the (at most one) that begins inside a call becomes the call's asynchronous action - with delay 0 when
    it came before the call's first own step, else a delay that lets the call block first.  An unfinished call at the
    end of the walk is dropped."""
    ops = []
    cur = None          # [op tuple pieces, async, internal steps seen]
    for name, args in walk:
        if name == "Call":
            op, c, s = args
            cur = {"op": op, "c": c, "set": list(s), "async": None, "steps": 0}
        elif name in ("Interrupt", "Release"):
            act = (2, 0) if name == "Interrupt" else (1, args[0])
            if cur is None:
                ops.append(("interrupt",) if act[0] == 2 else ("release", act[1]))
            else:
                cur["async"] = act + ((0 if cur["steps"] == 0 else 10 + 5 * (k % 2)),)
        elif name == "Ret":
            if cur is None:
                continue
            a = cur["async"]
            if cur["op"] == "wait":
                ops.append(("wait",) + (a if a else (0, 0, 0)) + (cur["set"],))
            elif cur["op"] == "join":
                ops.append(("join", cur["c"]) + (a if a else (0, 0, 0)))
            else:
                ops.append(("start", cur["c"], k % 2, 0, 7) if cur["op"] == "start" else ("kill", cur["c"]))
                if a:
                    ops.append(("interrupt",) if a[0] == 2 else ("release", a[1]))
            cur = None
        elif cur is not None:
            cur["steps"] += 1
    return ops


def rand_exec(rng, nops):
    """Random history over NH handles; biased so that children are started early and all phases are visited."""
    ops = []
    H = list(range(1, NH + 1))

    def rset():
        n = rng.choice([0, 1, 2, 2, 3, 3])
        return rng.sample(H, n)
    for i in range(nops):
        x = rng.random()
        c = rng.choice(H)
        if x < 0.18 or i < 2:
            ops.append(("start", c, rng.randint(0, 1), 1 if rng.random() < 0.25 else 0, rng.choice(CODES)))
        elif x < 0.34:
            ops.append(("release", c))
        elif x < 0.43:
            at = rng.choice([0, 0, 1, 2, 3])
            ops.append(("join", c, at, rng.choice(H), rng.choice([0, 8, 15])))
        elif x < 0.49:
            ops.append(("kill", c))
        elif x < 0.70:
            at = rng.choice([0, 0, 1, 1, 2, 2, 3])
            ops.append(("wait", at, rng.choice(H), rng.choice([0, 8, 15]), rset()))
        elif x < 0.77:
            ops.append(("interrupt",))
        elif x < 0.88:
            nm = rng.choice(NAMES + NAMES + BADNAMES)
            ops.append(("setenv", nm, rng.choice(VALUES)))
        elif x < 0.95:
            ops.append(("getenv", rng.choice(NAMES + BADNAMES[:1]), rng.choice([b"", b"dflt"])))
        else:
            ops.append(("getenvs",))
    return ops


SCENARIOS = [
    # the repository's TestProcess scenarios, with controlled children
    [("interrupt",), ("wait", 0, 0, 0, [])],
    [("wait", 2, 0, 30, [])],
    [("start", 1, 1, 0, 0), ("start", 2, 1, 0, 0), ("release", 1), ("wait", 0, 0, 0, [2, 1]), ("join", 1, 0, 0, 0),
     ("wait", 1, 2, 20, [2]), ("join", 2, 0, 0, 0)],
    # blocks while all are running, from another thread: interrupt / termination of each member
    [("start", 1, 0, 0, 1), ("start", 2, 0, 0, 2), ("start", 3, 0, 0, 3), ("wait", 2, 0, 25, [1, 2, 3]),
     ("wait", 1, 3, 25, [1, 2, 3]), ("wait", 0, 0, 0, [1, 2, 3]), ("join", 3, 0, 0, 0), ("wait", 1, 1, 25, [2, 1]),
     ("wait", 2, 0, 0, [2]), ("join", 1, 0, 0, 0), ("join", 2, 1, 2, 25)],
    # an interrupt before the wait is not lost, a terminated child is not lost by the interrupt
    [("start", 1, 0, 0, 5), ("release", 1), ("interrupt",), ("interrupt",), ("wait", 0, 0, 0, [1]), ("wait", 0, 0, 0, [1]),
     ("wait", 0, 0, 0, [1]), ("join", 1, 0, 0, 0)],
    # interrupt after a wait that returned a process (the implementation keeps waitState 2), then waits of both kinds
    [("start", 1, 0, 0, 5), ("release", 1), ("wait", 0, 0, 0, [1]), ("interrupt",), ("wait", 0, 0, 0, []),
     ("wait", 0, 0, 0, [1]), ("interrupt",), ("join", 1, 0, 0, 0), ("wait", 0, 0, 0, [1])],
    # an unlisted terminated child must not hide a listed terminated child (finding X02/2), in both start orders
    [("start", 1, 0, 0, 1), ("start", 2, 0, 0, 2), ("release", 1), ("release", 2), ("wait", 0, 0, 0, [2]), ("join", 1, 0, 0, 0),
     ("wait", 0, 0, 0, [2]), ("start", 1, 0, 0, 1), ("release", 1), ("wait", 0, 0, 0, [1]), ("wait", 0, 0, 0, [2, 1]), ("kill", 2),
     ("wait", 0, 0, 0, [3, 1])],
    # kill: running child, terminated child, never started; join afterwards
    [("kill", 1), ("join", 1, 0, 0, 0), ("start", 1, 0, 0, 9), ("kill", 1), ("join", 1, 0, 0, 0), ("start", 1, 1, 1, 9),
     ("release", 1), ("kill", 1), ("kill", 1), ("start", 1, 0, 0, 3), ("join", 1, 1, 1, 10)],
    # environment
    [("setenv", b"VX_A", b"1"), ("getenv", b"VX_A", b"d"), ("getenvs",), ("start", 1, 0, 0, 0), ("setenv", b"VX_B", b"a=b"),
     ("start", 2, 1, 0, 0), ("setenv", b"VX_A", b""), ("getenv", b"VX_A", b"d"), ("getenvs",), ("start", 3, 0, 1, 0),
     ("setenv", b"", b"1"), ("setenv", b"VX=Q", b"1"), ("getenvs",), ("kill", 1), ("kill", 2), ("kill", 3), ("start", 1, 1, 0, 0)],
]


def run(ctx):
    bins = build()
    _sweep_scratch()
    quick = ctx.quick
    # 1. Layer 1: the stand-alone model and its action properties; the graph (states identified by the abstract state)
    r = vlib.tlc(SPECDIR, "ProcLife", "ProcLife.cfg", workers=4, timeout=900, coverage=False)
    ctx.add_tlc("ProcLife", r)
    dot = os.path.join(ctx.work, "proclife.dot")
    r = vlib.tlc(SPECDIR, "ProcLife", "ProcLife_graph2.cfg" if quick else "ProcLife_graph3.cfg", workers=1, timeout=600, dump=dot)
    ctx.add_tlc("ProcLife_graph", r)
    execs = [to_lines(s) for s in SCENARIOS]
    if r.ok:
        walks, nedges = vlib.graph_walks(dot, max_len=60, seed=ctx.seed)
        os.remove(dot)
        ctx.notes["layer1_graph_edges_replayed"] = nedges
        execs += [to_lines([l1_label_to_op(nm, a, i + j) for j, (nm, a) in enumerate(w)]) for i, w in enumerate(walks)]
    check_executions(ctx, bins, execs, "graph1")
    # 2. Layer 2: POSIX wait / interrupt, exhaustively for the tier's bounds; liveness under fairness; graph -> call level
    cfg, live = ("ProcWaitImpl.cfg", "ProcWaitImpl_live.cfg") if quick else ("ProcWaitImpl_n3.cfg", "ProcWaitImpl_live3.cfg")
    if not quick:
        # deeper bound, model checking only (its graph, 1.4 M edges, is too large to turn into walks in the time budget)
        rb = vlib.tlc(SPECDIR, "ProcWaitImpl", "ProcWaitImpl_big.cfg", workers=4, timeout=1500, xmx="4g")
        ctx.add_tlc("ProcWaitImpl_3children_5calls", rb)
    dot = os.path.join(ctx.work, "procwait.dot")
    r = vlib.tlc(SPECDIR, "ProcWaitImpl", cfg, workers=4, timeout=1500, dump=dot, coverage=quick, xmx="4g")
    ctx.add_tlc("ProcWaitImpl", r)
    # vlib records the number of distinct states an action found; vacuity needs the number of times it was taken
    for m in re.finditer(r"^<(\w+) line \d+, col \d+ to line \d+, col \d+ of module ProcWaitImpl>: (\d+):(\d+)", r.out, flags=re.M):
        ctx.cov["ProcWaitImpl.taken." + m.group(1)] = int(m.group(3))
    rl = vlib.tlc(SPECDIR, "ProcWaitImpl", live, workers=4, timeout=1500, xmx="4g")
    ctx.add_tlc("ProcWaitImpl_liveness", rl)
    # model-level witness of finding X02/2: the transcription of the ORIGINAL wait() (Scan = FALSE) does not refine ProcLife
    ro = vlib.tlc(SPECDIR, "ProcWaitImpl", "ProcWaitImpl_orig.cfg", workers=2, timeout=600)
    ctx.notes["layer2_model_of_unpatched_wait_violates_refinement"] = bool(ro.violation and "Refines" in ro.violation)
    if ro.broken:
        ctx.broken.append("ProcWaitImpl_orig: " + ro.broken[:800])
    if r.ok:
        walks, nedges = vlib.graph_walks(dot, max_len=120, seed=ctx.seed)
        os.remove(dot)
        ctx.notes["layer2_graph_edges"] = nedges
        seen = set()
        execs = []
        for i, w in enumerate(walks):
            lines = to_lines(project_l2_walk(w, i))
            t = tuple(lines)
            if lines and t not in seen:
                seen.add(t)
                execs.append(lines)
        ctx.notes["layer2_walks"] = len(walks)
        ctx.notes["layer2_distinct_call_level_sequences"] = len(execs)
        limit = 700 if quick else 12000
        if len(execs) > limit:
            ctx.rng.shuffle(execs)
            execs = execs[:limit]
        check_executions(ctx, bins, execs, "graph2", nproc=6)
    # 3. direction B: random histories
    nexec, nops = (240, 30) if quick else (3000, 40)
    execs = [to_lines(rand_exec(ctx.rng, nops)) for _ in range(nexec)]
    check_executions(ctx, bins, execs, "random", nproc=6)
    return vlib.finish(ctx, "model_checking",
                       "ProcLife (Layer 1) model-checked with its action properties; every edge of its graph, the hand "
                       "scenarios, the call-level projections of the walks covering every edge of the ProcWaitImpl graph "
                       "(Layer 2: POSIX wait/interrupt/join/kill with an interrupting thread and terminating children; "
                       "refinement, no lost interrupt, no stuck wait, liveness) and seeded random histories run on the "
                       "real Process with real helper children whose termination the driver controls; every event judged "
                       "by TLC against ProcLife (ProcLifeTrace); hangs caught by the driver's watchdog")


def replay(ctx, path):
    bins = build()
    check_executions(ctx, bins, vlib.read_ops_file(path), "replay", nproc=1)
    return vlib.finish(ctx, "model_checking", "replay of one op sequence")


def selftest(ctx):
    """Binding self-test of the trace specification: an unmodified trace is accepted, traces with one corrupted
    observation are rejected."""
    bins = build()
    ops = to_lines(SCENARIOS[2]) + to_lines([("setenv", b"VX_A", b"1"), ("getenv", b"VX_A", b"d")])
    cases = [('"op":"wait","ln":5', '"r":1', '"r":2'), ('"op":"join","ln":6', '"xc":0', '"xc":3'),
             ('"op":"join","ln":6', '"run":[0,', '"run":[1,'), ('"op":"getenv"', '"out":"1"', '"out":"d"'),
             ('"op":"wait","ln":7', '"fired":true', '"fired":false')]
    tp = os.path.join(ctx.work, "selftest.ndjson")
    vlib.run_driver(bins[0], [ops], tp, args=[vlib.BUILD, bins[1]])
    text = open(tp).read()
    r, mism, done = vlib.validate_trace(SPECDIR, "ProcLifeTrace", "ProcLifeTrace.cfg", tp)
    ok = done and not mism
    vlib.log("selftest original accepted=%s" % ok)
    for anchor, old, new in cases:
        lines = text.splitlines()
        hit = [i for i, l in enumerate(lines) if anchor in l and old in l]
        if not hit:
            vlib.log("selftest case %s: anchor not found" % anchor)
            ok = False
            continue
        lines[hit[0]] = lines[hit[0]].replace(old, new, 1)
        with open(tp, "w") as f:
            f.write("\n".join(lines) + "\n")
        r, mism2, done2 = vlib.validate_trace(SPECDIR, "ProcLifeTrace", "ProcLifeTrace.cfg", tp)
        bad = done2 and len(mism2) >= 1
        vlib.log("selftest %-28s %s -> %s rejected=%s" % (anchor, old, new, bad))
        ok = ok and bad
    _sweep_scratch()
    return 0 if ok else 2
