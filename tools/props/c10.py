"""C10 - Every Future call runs exactly once and join waits for its result."""
import os
import vlib

SPECDIR = os.path.join(vlib.SPEC, "conc")
SRCS = ["src/Future.cpp", "src/Signal.cpp", "src/Thread.cpp", "src/Mutex.cpp", "src/Time.cpp", "src/System.cpp", "src/Memory.cpp",
        "src/String.cpp", "src/Debug.cpp"]


def build():
    return vlib.build("scn_future", ["sched/sched.cpp", "conc/scn_future.cpp"], SRCS, libs=["-ldl"])


def build_fsig():
    # the scenario includes src/Future.cpp itself (FastSignal is private to that file)
    return vlib.build("scn_fsig", ["sched/sched.cpp", "conc/scn_fsig.cpp"], [x for x in SRCS if x != "src/Future.cpp"], libs=["-ldl"])


def fsig_runs(ctx, n):
    """Programs on ONE FastSignal (the pool's enqueued / dequeued signal): waiters, setters, and threads that reset and
    set again - every reset is followed by a set of the same thread, so the event ends up set and every waiter must
    return (manual-reset event: PrimsAbs of C11 judges the events; a waiter left blocked is a deadlock verdict)."""
    rng = ctx.rng
    runs = []
    for i in range(n):
        progs = [["wait"] * rng.choice([1, 1, 2]) for _ in range(rng.choice([1, 1, 2]))]
        progs += [["set"] * rng.randint(1, 3) for _ in range(rng.choice([1, 2]))]
        progs += [rng.choice([["reset", "set"], ["reset", "reset", "set"], ["reset", "set", "reset", "set"]]) for _ in range(rng.choice([1, 1, 2]))]
        rng.shuffle(progs)
        progs = progs[:6]
        a = ["prim=fastsignal", "n=%d" % len(progs), "init=%d" % rng.choice([0, 1, 1])] + ["p%d=%s" % (j + 1, ",".join(p)) for j, p in enumerate(progs)]
        a += ["--seed", str(ctx.seed * 9176 + i), "--spur", "0"]
        if rng.random() < 0.4:
            a += ["--pct", str(rng.choice([1, 2, 3])), "--pct-len", "40"]
        runs.append(a)
    return runs


def key_of(args, res):
    feats = [a for a in args if a.split("=")[0] in ("mode", "abort", "poolcap", "poolmax") and "=" in a]
    return "Future:%s:%s" % (res, ",".join(sorted(feats)))


def check_runs(ctx, binary, runs, tag):
    combined, results = vlib.run_sched_executions(binary, runs, ctx.work, tag, timeout=120)
    ctx.evaluations += sum(r.get("steps", 0) for r in results)
    bad = set()
    for i, r in enumerate(results):
        ctx.drift += r.get("diverged", 0)
        if r["verdict"] != "done":
            bad.add(i)
            rp = ctx.save_replay("%s_%d.args" % (tag, i), [" ".join(runs[i]) + " --sched " + '"%s"' % r.get("choices", "")])
            san = [l for l in r.get("stderr", "").splitlines() if "ERROR: AddressSanitizer" in l or "SUMMARY" in l or "runtime error" in l]
            what = "asan" if san else (r["verdict"] + ("(" + r.get("failure", "")[:60] + ")" if r["verdict"] == "oracle" else ""))
            ctx.report(key_of(runs[i], what), rp, "verdict %s (%s) for %s\nschedule: %s\n%s" % (
                r["verdict"], r.get("failure", ""), " ".join(runs[i]), r.get("choices", "")[:600], "\n".join(san[:4])))
    r, mism, done = vlib.validate_trace(SPECDIR, "FutureAbsTrace", "FutureAbsTrace.cfg", combined)
    ctx.add_tlc("trace:" + tag, r, must_pass=False)
    if r.violation or (not done and not r.broken):
        ctx.broken.append("trace validation of %s failed: %s" % (tag, (r.violation or "incomplete")[:800]))
    for line, why in mism:
        for i, res in enumerate(results):
            if res["lines"][0] <= line <= res["lines"][1] and i not in bad:
                bad.add(i)
                rp = ctx.save_replay("%s_%d.args" % (tag, i), [" ".join(runs[i]) + " --sched " + '"%s"' % res.get("choices", "")])
                ctx.report(key_of(runs[i], "layer1:" + why), rp, "Layer-1 mismatch at trace line %d (%s) of %s\nschedule: %s" % (
                    line - res["lines"][0] + 1, why, " ".join(runs[i]), res.get("choices", "")[:600]))
    ctx.traces += len(runs) - len(bad)
    for a in runs:
        ctx.distinct.add(hash(tuple(a)))
    if runs:
        ctx.sample({"source": tag, "args": runs[len(runs) // 2][:12]})


def run(ctx):
    binary = build()
    # Layer 2: the pool algorithm as written, all interleavings: exactly once, join after completion, liveness
    models = [("c1f1", True, 900), ("c1f2", True, 900)]
    if not ctx.quick:
        # c2f2_nr: two clients x two futures on a queue of one slot with one worker (no retirement): the smallest
        # configuration in which two clients block on the full queue - it deadlocks without the FastSignal repair
        models += [("c1f3", False, 3000), ("c2f1", False, 3000), ("c2f1cap2", False, 3000), ("c2f2_nr", False, 3000)]
    for name, replay, to in models:
        dot = os.path.join(ctx.work, name + ".dot") if replay else None
        r = vlib.tlc(SPECDIR, "FuturePoolImpl", "FuturePoolImpl_%s.cfg" % name, workers=8 if ctx.quick else 14, timeout=to, dump=dot, xmx="12g")
        ctx.add_tlc("FuturePoolImpl_" + name, r)
        if not (r.ok and replay):
            continue
        walks, nedges = vlib.graph_walks(dot, max_len=400, seed=ctx.seed)
        os.remove(dot)
        limit = 120 if ctx.quick else 1500
        if len(walks) > limit:
            walks = ctx.rng.sample(walks, limit)
        futs = 1 if name == "c1f1" else 2
        pm = 1 if name == "c1f1" else 2
        runs = [["clients=1", "futs=%d" % futs, "poolmax=%d" % pm, "poolcap=1", "mode=%d" % (i % 2), "--seed", str(ctx.seed + i), "--spur", "0",
                 "--sched", " ".join(str(st[1][0]) for st in w if st[1])] for i, w in enumerate(walks)]
        ctx.notes["graph_edges:" + name] = nedges
        check_runs(ctx, binary, runs, "graph_" + name)
    if not ctx.quick:
        # beyond the exhaustively explored configurations: random simulation of the model (safety invariants only)
        for name in ("c2f2_sim", "c3f1_sim"):
            r = vlib.tlc(SPECDIR, "FuturePoolImpl", "FuturePoolImpl_%s.cfg" % name, workers=8, simulate=200000, depth=600, seed=ctx.seed, timeout=420, xmx="6g")
            ctx.add_tlc("FuturePoolImpl_" + name + "(simulate)", r)
    # direction B: random and PCT schedules over clients x futures x pool sizes x queue capacities x modes
    nrand = 500 if ctx.quick else 12000
    runs = []
    rng = ctx.rng
    for i in range(nrand):
        a = ["clients=%d" % rng.choice([1, 2, 2, 3]), "futs=%d" % rng.choice([1, 1, 2, 3]), "poolmax=%d" % rng.choice([1, 2, 2, 3]),
             "poolcap=%d" % rng.choice([1, 1, 2, 4]), "mode=%d" % rng.choice([0, 1, 2, 3, 4, 4, 6]), "abort=%d" % rng.choice([0, 0, 1, 2]),
             "sleep=%d" % rng.choice([0, 0, 0, 3000]), "workyield=%d" % rng.choice([0, 1]),
             "--seed", str(ctx.seed * 100003 + i), "--spur", rng.choice(["0", "0", "0.05"])]
        k = rng.random()
        if k < 0.6:
            a += ["--pct", str(rng.choice([1, 2, 3])), "--pct-len", str(rng.choice([60, 120, 250]))]
        runs.append(a)
    check_runs(ctx, binary, runs, "random")
    # a failed thread creation (the pthread model refuses the pool's first attempt): the pool must not count the missing worker,
    # the calls started afterwards get a worker and everything runs (client 1, whose first start meets the failure, always makes a
    # second call after it: with one call per client both starts can be over before the failure is known, and nothing recovers)
    check_runs(ctx, binary, [["clients=%d" % cl, "futs=%d" % fu, "poolmax=%d" % pm, "poolcap=4", "mode=%d" % md, "failcreate=1", "workyield=%d" % (i % 2),
                              "--seed", str(ctx.seed + i), "--spur", "0"]
                             for i, (cl, fu, pm, md) in enumerate([(1, 2, 1, 0), (1, 3, 1, 1), (1, 2, 2, 0), (2, 2, 1, 0), (2, 2, 1, 1)] * (1 if ctx.quick else 20))], "failcreate")
    # every start() overload (Future<void> / Future<A>, function / member function, 0..5 arguments): arguments and result
    check_runs(ctx, binary, [["clients=1", "futs=1", "poolmax=%d" % pm, "poolcap=4", "mode=5", "workyield=%d" % (i % 2), "--seed", str(ctx.seed + i), "--spur", "0"]
                             for i, pm in enumerate([1, 2, 3, 2] if ctx.quick else [1, 2, 3] * 10)], "overloads")
    # the pool's FastSignal on its own: small programs reach the interleavings of its two-step set / reset far more often
    # than whole-pool runs do (the lost wake-up repaired in ee820be needs a reset split by a complete set)
    from props import c11
    fsig = build_fsig()
    c11.check_runs(ctx, fsig, fsig_runs(ctx, 400 if ctx.quick else 8000), "fastsignal")
    # ... and systematically: every schedule with at most 2 (thorough: 3) preemptions of small FastSignal programs, every
    # schedule with at most 1 (thorough: 2) preemption of small pool configurations (vlib.preemption_bounded_schedules)
    FS_PROGS = [(1, ["wait"], ["set"], ["reset", "set"]), (1, ["wait"], ["set", "set"], ["reset", "set"]), (0, ["wait"], ["set", "reset", "set"], ["set"]),
                (1, ["wait", "wait"], ["set"], ["reset", "reset", "set"]), (1, ["wait"], ["wait"], ["set"], ["reset", "set"]),
                (0, ["wait"], ["set"], ["reset", "set"], ["reset", "set"])]
    runs = []
    for init, *progs in FS_PROGS:
        base = ["prim=fastsignal", "n=%d" % len(progs), "init=%d" % init] + ["p%d=%s" % (j + 1, ",".join(p)) for j, p in enumerate(progs)] + ["--seed", "1", "--spur", "0"]
        runs += vlib.preemption_bounded_schedules(fsig, base, bound=2 if ctx.quick else 3, cap=1500 if ctx.quick else 12000)
    ctx.notes["preemption_bounded_fastsignal_schedules"] = len(runs)
    c11.check_runs(ctx, fsig, runs, "fastsignal_pb")
    runs = []
    for cfg in (["clients=2", "futs=2", "poolmax=1", "poolcap=1", "mode=0"], ["clients=2", "futs=1", "poolmax=2", "poolcap=1", "mode=1"],
                ["clients=1", "futs=3", "poolmax=2", "poolcap=2", "mode=4"], ["clients=2", "futs=2", "poolmax=2", "poolcap=2", "mode=6"]):
        base = cfg + ["workyield=0", "--seed", "1", "--spur", "0"]
        runs += vlib.preemption_bounded_schedules(binary, base, bound=1 if ctx.quick else 2, cap=500 if ctx.quick else 6000)
    ctx.notes["preemption_bounded_pool_schedules"] = len(runs)
    check_runs(ctx, binary, runs, "pool_pb")
    ctx.assumptions.append("sequential consistency at the granularity of atomic accesses, hooked plain reads/writes and pthread calls")
    return vlib.finish(ctx, "model_checking",
                       "TLC model of the pool (FuturePoolImpl: all interleavings for 1-2 clients, capacities 1-2, liveness) -> schedules "
                       "replayed on the real Future/pool through the cooperative scheduler + random and PCT schedules over 1-3 clients x "
                       "1-3 futures x pool sizes 1-3 x queue capacities 1-4 with restart / abort / idle-time variants + the pool's FastSignal on its own "
                       "(random programs and every schedule with <= 2-3 preemptions, judged as a manual-reset event by PrimsAbs) + every schedule "
                       "with <= 1-2 preemptions of three small pool configurations; start/exec/done/"
                       "join events validated by TLC against FutureAbs; deadlock, non-termination, use of a destroyed primitive and "
                       "sanitizer reports are violations; distinct = distinct (configuration, schedule) pairs")


def replay(ctx, path):
    binary = build()
    import shlex
    with open(path) as f:
        args = shlex.split(f.read().strip())
    if "prim=fastsignal" in args:
        from props import c11
        c11.check_runs(ctx, build_fsig(), [args], "replay")
    else:
        check_runs(ctx, binary, [args], "replay")
    return vlib.finish(ctx, "model_checking", "replay")
