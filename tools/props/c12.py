"""C12 - Signals reach exactly the connected slots, safely under re-entrancy."""
import os
import vlib

SPECDIR = os.path.join(vlib.SPEC, "callback")


def build():
    return vlib.build("drv_callback", ["callback/drv_callback.cpp"], ["src/Callback.cpp", "src/Memory.cpp"])


def key_of(ops, step):
    """Signature: the failing op plus the structural features of the history that matter for C12."""
    hist = ops[:step]
    op = hist[-1].split()[0] if hist else "?"
    feats = []
    seen = set()
    dup = False
    for o in hist:
        t = o.split()
        if t[0] == "connect":
            if tuple(t[1:]) in seen:
                dup = True
            seen.add(tuple(t[1:]))
        elif t[0] == "disconnect":
            seen.discard(tuple(t[1:]))
    if dup:
        feats.append("dupConnection")
    depth = 0
    for o in hist:
        if o.startswith("emit"):
            depth += 1
    if depth:
        feats.append("inEmission")
    if any(o.startswith("destroyL") for o in hist):
        feats.append("destroyL")
    if any(o.startswith("destroyE") for o in hist):
        feats.append("destroyE")
    return "Callback.%s:%s" % (op, "+".join(feats) or "plain")


def label_to_op(name, args):
    if name == "IConnect":
        return "connect %d %d %d %d" % tuple(args)
    if name == "IDisconnect":
        return "disconnect %d %d %d %d" % tuple(args)
    if name == "IEmit":
        return "emit %d %d" % tuple(args)
    if name == "IReturn":
        return "ret!"
    if name == "IDestroyL":
        return "destroyL %d" % args[0]
    if name == "IDestroyE":
        return "destroyE %d" % args[0]
    return None      # IAdvance: performed by the library itself


def rand_exec(rng, nops, ne, nl):
    # the signals / slots of one execution all take the same number of arguments: each arity 0..8 is its own emit() overload
    ops = ["arity %d" % rng.randint(0, 8)]
    for _ in range(nops):
        r = rng.random()
        e, g, l, k = rng.randint(1, ne), rng.randint(1, 2), rng.randint(1, nl), rng.randint(1, 2)
        if r < 0.30:
            ops.append("connect %d %d %d %d" % (e, g, l, k))
        elif r < 0.45:
            ops.append("disconnect %d %d %d %d" % (e, g, l, k))
        elif r < 0.70:
            ops.append("emit %d %d" % (e, g))
        elif r < 0.90:
            ops.append("ret")
        elif r < 0.96:
            ops.append("destroyL %d" % l)
        else:
            ops.append("destroyE %d" % e)
    return ops


# the scenarios of the repository's own unit test (test/UnitTest/TestCallback.cpp), transcribed for the interpreter:
# the test asserts only a few counters; here every invocation and both sides' bookkeeping are judged by Connections
UNIT_TEST_SCENARIOS = [
    ["connect 1 1 1 1", "disconnect 1 1 1 1", "connect 1 1 1 1", "connect 1 1 1 1", "emit 1 1", "ret!", "ret!", "emit 1 2"],
    ["connect 1 1 2 1", "destroyL 2", "emit 1 1"],
    ["connect 2 1 1 1", "destroyE 2", "destroyL 1"],
    ["connect 1 1 2 1", "connect 1 1 1 1", "emit 1 1", "destroyL 2", "ret!", "ret!", "emit 1 1", "ret!"],
    ["connect 1 1 1 1", "connect 1 1 2 1", "emit 1 1", "disconnect 1 1 1 1", "ret!", "ret!", "emit 1 1", "ret!"],
    ["connect 1 1 1 1", "connect 1 1 2 1", "emit 1 1", "disconnect 1 1 1 1", "destroyE 1", "ret!", "destroyL 1", "destroyL 2"],
    ["connect 1 1 3 1", "connect 1 1 3 2", "connect 1 1 4 1", "connect 1 1 4 2", "emit 1 1", "ret!", "ret!", "ret!", "ret!", "emit 1 2",
     "disconnect 1 1 3 1", "disconnect 1 1 3 2", "disconnect 1 1 4 1", "emit 1 1", "ret!"],
]


def check_executions(ctx, binary, executions, tag):
    return vlib.check_executions(ctx, binary, executions, tag, SPECDIR, "ConnectionsTrace", "ConnectionsTrace.cfg", key_of)


def run(ctx):
    binary = build()
    r = vlib.tlc(SPECDIR, "Connections", "Connections.cfg", workers=4, timeout=600)
    ctx.add_tlc("Connections", r)
    # Layer 2 refines Layer 1 (all interleavings of nested connect/disconnect/emit/destroy within the bounds)
    cfgs = ["CallbackImpl_small.cfg"] if ctx.quick else ["CallbackImpl.cfg", "CallbackImpl_2e.cfg", "CallbackImpl_2g.cfg"]
    for cfg in cfgs:
        dot = os.path.join(ctx.work, cfg + ".dot")
        r = vlib.tlc(SPECDIR, "CallbackImpl", cfg, workers=8, timeout=1500, dump=dot, xmx="6g")
        ctx.add_tlc(cfg, r)
        if r.ok:
            walks, nedges = vlib.graph_walks(dot, max_len=120, seed=ctx.seed)
            os.remove(dot)
            execs = [[x for x in (label_to_op(*st) for st in w) if x] for w in walks]
            ctx.notes["graph_edges_replayed:" + cfg] = nedges
            # the model's behaviours do not depend on the number of signal arguments: the walks are spread over all nine
            # emit() overloads (arity 0..8)
            execs = [["arity %d" % (n % 9)] + e for n, e in enumerate(execs)]
            check_executions(ctx, binary, execs, "graph_" + cfg.replace(".cfg", ""))
    check_executions(ctx, binary, [["arity %d" % n] + sc for sc in UNIT_TEST_SCENARIOS for n in range(9)], "unittest")
    # direction B: random nested programs over 3 emitters x 2 signals, 4 listeners x 2 slots
    nexec, nops = (600, 40) if ctx.quick else (20000, 60)
    execs = [rand_exec(ctx.rng, nops, ctx.rng.choice([1, 2, 3]), ctx.rng.choice([1, 2, 4])) for _ in range(nexec)]
    check_executions(ctx, binary, execs, "random")
    return vlib.finish(ctx, "model_checking",
                       "every edge of the CallbackImpl state graph replayed through the re-entrant interpreter on the real "
                       "Callback classes (spread over all nine emit() overloads, arity 0..8, argument values checked) + seeded random nested programs; every event (invocations, returns, both sides' "
                       "bookkeeping at quiescent points) validated by TLC against Connections; distinct = distinct op sequences")


def replay(ctx, path):
    binary = build()
    check_executions(ctx, binary, vlib.read_ops_file(path), "replay")
    return vlib.finish(ctx, "model_checking", "replay")
