"""X05 (extra) - Console::Prompt is a faithful line editor on a VT100 terminal (POSIX branch, behind a pty)."""
import json
import os
import re
import vlib
from vlib import hexs

SPECDIR = os.path.join(vlib.SPEC, "text")
SRCS = ["src/Console.cpp", "src/Process.cpp", "src/Mutex.cpp", "src/Thread.cpp", "src/Memory.cpp", "src/String.cpp",
        "src/Debug.cpp", "src/Error.cpp", "src/Monitor.cpp", "src/Signal.cpp", "src/Semaphore.cpp", "src/System.cpp"]

ESC = 27
KEYS = {"a": b"a", "b": b"b", "e2": "é".encode(), "sp": b" ", "bs": b"\x7f", "del": b"\x1b[3~", "left": b"\x1b[D",
        "right": b"\x1b[C", "home": b"\x1b[H", "end": b"\x1b[F", "up": b"\x1b[A", "down": b"\x1b[B", "enter": b"\r",
        "tab": b"\t", "pgup": b"\x1b[5~", "alt": b"\x1bx"}
NAMED = {v: k for k, v in KEYS.items()}
NAMED[b"\x08"] = "bs"
CSI_BUF = 60          # parameter bytes of a control sequence that fit the Prompt's 64-byte key buffer


def build():
    return vlib.build("drv_console", ["console/drv_console.cpp"], SRCS, libs=["-ldl", "-lutil"])


def hx(b):
    return hexs(list(b))


def unhx(tok):
    return bytes.fromhex(tok[1:])


# ---------------------------------------------------------------------------------------------
# framing used by the generators and by key_of (input selection / classification only; verdicts come from TLC)

def split_units(bs):
    """bytes -> list of complete well-formed units + the trailing incomplete rest (same framing as LineEdit.tla for
    well-formed input)."""
    units = []
    i = 0
    n = len(bs)
    while i < n:
        b = bs[i]
        if b == ESC:
            if i + 1 >= n:
                break
            if bs[i + 1] != 0x5b:
                units.append(bs[i:i + 2])
                i += 2
                continue
            j = i + 2
            while j < n and (0x30 <= bs[j] <= 0x39 or bs[j] in (0x3b, 0x3f)):
                j += 1
            if j >= n:
                break
            units.append(bs[i:j + 1])
            i = j + 1
        elif b < 0x80:
            units.append(bs[i:i + 1])
            i += 1
        else:
            ln = 2 if 0xc2 <= b <= 0xdf else 3 if 0xe0 <= b <= 0xef else 4 if 0xf0 <= b <= 0xf4 else 1
            if i + ln > n:
                break
            units.append(bs[i:i + ln])
            i += ln
    return units, bs[i:]


def kind_of_unit(u):
    if u in NAMED and NAMED[u] not in ("a", "b", "e2", "sp"):
        k = NAMED[u]
        return "unknownEscape" if k in ("pgup", "alt") else k
    if u[:1] == b"\x1b":
        if len(u) - 3 > CSI_BUF:
            return "escapeSequenceLongerThanKeyBuffer"
        return "unknownEscape"
    return "insert"


def key_of(ops, step):
    """Signature of a failing step: the operation, the kind of key and the precondition that matters."""
    if not (0 < step <= len(ops)):
        return "X05.?"
    t = ops[step - 1].split()
    op = t[0]
    if op in ("open", "line", "close", "finish"):
        # a crash in "line" with type-ahead pending is attributed to the typed-ahead keys
        if op == "line":
            for o in reversed(ops[:step - 1]):
                tt = o.split()
                if tt[0] in ("key", "junk"):
                    us, _ = split_units(unhx(tt[1]))
                    if any(kind_of_unit(u) == "escapeSequenceLongerThanKeyBuffer" for u in us):
                        return "Prompt.key:escapeSequenceLongerThanKeyBuffer"
                if tt[0] == "line":
                    break
        return "Prompt." + op
    us, rest = split_units(unhx(t[1]))
    kinds = [kind_of_unit(u) for u in us]
    if "escapeSequenceLongerThanKeyBuffer" in kinds:
        return "Prompt.key:escapeSequenceLongerThanKeyBuffer"
    if op == "junk":
        return "Prompt.key:illFormedInput"
    if rest or not kinds:
        return "Prompt.key:partial"          # a piece of a key sent in several writes
    return "Prompt.key:" + kinds[-1]


# ---------------------------------------------------------------------------------------------
# generators

WIDTHS = [4, 4, 5, 5, 6, 7, 8, 10, 13, 20, 40, 64]
PROMPTS = [b"", b">", b"> ", b"> ", b"$ ", b"nstd> ", "é> ".encode(), "€ ".encode(), b"a long prompt> ", b"ab"]
CHARS = [chr(c) for c in range(33, 127)] + [" ", " ", " ", "a", "a", "b", "e", "x"] + \
        [chr(c) for c in (0xe9, 0xe9, 0x20ac, 0xa0, 0xff, 0x7ff, 0x800, 0xd7ff, 0xe000, 0xfffd, 0xffff, 0x10000, 0x1d11e, 0x10ffff)]
UNKNOWN_ESC = [b"\x1b[5~", b"\x1b[6~", b"\x1b[2~", b"\x1b[1~", b"\x1b[4~", b"\x1b[1;5C", b"\x1b[1;2A", b"\x1b[Z", b"\x1b[E", b"\x1b[200~",
               b"\x1b[?1;2c", b"\x1b[3;5~", b"\x1b[1A", b"\x1b[15~", b"\x1bx", b"\x1b1", b"\x1b~", b"\x1bb", b"\x1b[3x", b"\x1b[G",
               b"\x1b[;A", b"\x1b[33~"]
EDIT_KEYS = [b"\x7f", b"\x7f", b"\x08", b"\x1b[3~", b"\x1b[3~", b"\x1b[D", b"\x1b[D", b"\x1b[D", b"\x1b[C", b"\x1b[C", b"\x1b[H", b"\x1b[F",
             b"\x1b[A", b"\x1b[A", b"\x1b[B", b"\t"]
ILL = [b"\xe2", b"\xe2\x82", b"\xf0", b"\xf0\x9f", b"\xf0\x9f\x98", b"\xc3", b"\x80", b"\xbf", b"\xf8", b"\xff", b"\xfe", b"\xc0\x80", b"\xc1\xbf",
       b"\xe0\x80\x80", b"\xed\xa0\x80", b"\xf4\x90\x80\x80", b"\xf5\x80\x80\x80", b"\xc2\x85", b"\xc2\x9b", b"\x1b\x1b[A", b"\x1bOP", b"\x1bOH",
       b"\x1b]0;t\x07", b"\x1b[1\r", b"\x1b[\x1b[A", b"\x1b[\x80", b"\x1b[1:2m", b"\x1b[<0;1;1M", b"\x1b[1 q", b"\x1b", b"\x1b[", b"\x1b[12",
       b"\x01", b"\x07", b"\x0a", b"\x0c", b"\x1f", b"\x00", b"\x0b", b"\xc2\r", b"\xe0\x80\x8d", b"\x1bP1$r\x1b\\", b"\x1bN", b"\xe2\x1b[A",
       b"\xf0\x1b[A", b"\xc3\r", b"\xe2\r\r", b"\xf0\r\r\r"]


def rand_key(rng, history=True, ascii_only=False):
    k = rng.random()
    if k < 0.50:
        return (chr(rng.randint(32, 126)) if ascii_only else rng.choice(CHARS)).encode("utf-8")
    if k < 0.90:
        u = rng.choice(EDIT_KEYS)
        if not history and u in (b"\x1b[A", b"\x1b[B"):
            return b"\x1b[D"
        return u
    if k < 0.97:
        return rng.choice(UNKNOWN_ESC)
    n = rng.choice([1, 5, 20, 40, 57, 58, 59, 60])         # long but fitting parameter strings
    return b"\x1b[" + bytes(rng.choice(b"0123456789;") for _ in range(n)) + rng.choice([b"~", b"A", b"m", b"u"])


class Tracker:
    """Keeps the op sequence well-formed for well-formed input: is getLine running, what is typed ahead."""

    def __init__(self, rng):
        self.rng = rng
        self.ops = []
        self.in_line = False
        self.ahead = []         # complete units typed ahead
        self.prompt = b""

    def open(self, w=None, sc=None, q=None, utf8=1, bottom=None):
        rng = self.rng
        bottom = bottom if bottom is not None else (1 if rng.random() < 0.3 else 0)
        w = w if w is not None else rng.choice(WIDTHS)
        sc = sc if sc is not None else rng.choice([0, 0, 0, 1, w - 1, rng.randint(0, w - 1)])
        q = q if q is not None else (1 if rng.random() < 0.2 else 0)
        self.w = w
        self.ops.append("open %d %d %d %d %d" % (w, sc, q, utf8, bottom))

    def feed_units(self, units):
        """account for complete units arriving"""
        for u in units:
            if self.in_line:
                if u == b"\r":
                    self.in_line = False
            else:
                self.ahead.append(u)

    def line(self, prompt=None):
        assert not self.in_line
        if prompt is not None:
            self.prompt = prompt
        self.ops.append("line " + hx(self.prompt))
        self.in_line = True
        pending, self.ahead = self.ahead, []
        self.feed_units(pending)

    def key(self, bs, op="key"):
        us, rest = split_units(bs)
        assert not rest
        self.ops.append("%s %s" % (op, hx(bs)))
        self.feed_units(us)

    def key_split(self, bs):
        """one unit sent in several writes"""
        assert self.in_line and len(bs) > 1
        cuts = sorted(set(self.rng.randint(1, len(bs) - 1) for _ in range(self.rng.choice([1, 1, 2]))))
        prev = 0
        for c in cuts + [len(bs)]:
            self.ops.append("key " + hx(bs[prev:c]))
            prev = c
        self.feed_units([bs])

    def end(self):
        while self.in_line or self.ahead:
            if not self.in_line:
                self.line()
            else:
                self.key(b"\r")
        self.ops.append("close")
        return self.ops


def rand_clean_exec(rng, nlines, nkeys):
    t = Tracker(rng)
    c_locale = rng.random() < 0.12          # LANG=C: the byte-per-character reader, ASCII input
    t.open(utf8=0 if c_locale else 1)
    prompts = [p for p in PROMPTS if max(p, default=0) < 128] if c_locale else PROMPTS
    prompt = rng.choice(prompts)

    def rk():
        return rand_key(rng, ascii_only=c_locale)
    for _ in range(nlines):
        if rng.random() < 0.2:
            prompt = rng.choice(prompts)
        split = None
        if rng.random() < 0.25:                    # type-ahead while the application is busy
            for _ in range(rng.choice([1, 2, 4])):
                t.key(rk() if rng.random() < 0.85 else b"\r")
            if not c_locale and rng.random() < 0.25 and b"\r" not in t.ahead:
                # ... that ends inside a UTF-8 character: the rest arrives while getLine runs
                ch = rng.choice(["\u00e9", "\u20ac", "\U0001d11e"]).encode()
                split = (ch, rng.randint(1, len(ch) - 1))
                t.ops.append("key " + hx(ch[:split[1]]))
        t.line(prompt)
        if split:
            t.ops.append("key " + hx(split[0][split[1]:]))
            t.feed_units([split[0]])
        budget = rng.choice([0, 2, nkeys // 2, nkeys, nkeys])
        while t.in_line and budget > 0:
            budget -= 1
            k = rng.random()
            if k < 0.78:
                t.key(rk())
            elif k < 0.86:                          # several keys in one write (paste, fast typing)
                t.key(b"".join(rk() for _ in range(rng.choice([2, 3, 6]))) + (b"\r" if rng.random() < 0.2 else b"") +
                      (rk() if rng.random() < 0.1 else b""))
            elif k < 0.94:
                u = rk()
                if len(u) > 1:
                    t.key_split(u)
                else:
                    t.key(u)
            else:
                t.key(b"\r")
        if t.in_line:
            t.key(b"\r")
    return t.end()


def rand_junk_exec(rng, nkeys):
    """ill-formed input: only memory safety, the terminal mode and 'enter still ends the line' are judged for the line"""
    t = Tracker(rng)
    t.open(q=0, utf8=0 if rng.random() < 0.1 else 1)
    t.line(rng.choice(PROMPTS[:6]))
    for _ in range(rng.choice([0, 1, 3])):
        t.key(rand_key(rng))
        if not t.in_line:
            t.line()
    ops = t.ops
    for _ in range(rng.choice([1, 1, 2, 4])):
        ops.append("junk " + hx(rng.choice(ILL)))
        for _ in range(rng.choice([0, 1, 2, nkeys])):
            ops.append("junk " + hx(rand_key(rng) if rng.random() < 0.9 else b"\r"))
    ops.append("finish")
    # the framing is in step again: further lines are judged as far as their content is known
    for _ in range(rng.choice([0, 1, 2])):
        ops.append("line " + hx(t.prompt))
        for _ in range(rng.choice([0, 2, 5])):
            u = rand_key(rng)
            if u != b"\r":
                ops.append("junk " + hx(u))
        ops.append("finish")
    ops.append("close")
    return ops


def rand_long_csi_exec(rng):
    """well-formed control sequences with long parameter strings around the Prompt's key buffer size"""
    t = Tracker(rng)
    t.open(q=0)
    t.line(b"> ")
    t.key(b"ab")
    n = rng.choice([58, 59, 60, 61, 62, 63, 64, 70, 100, 200, 1000])
    seq = b"\x1b[" + bytes(rng.choice(b"0123456789;") for _ in range(n)) + rng.choice([b"~", b"A", b"m"])
    if rng.random() < 0.3:
        t.key(b"\r")
        t.key(seq)             # typed ahead: passes through the look-ahead buffer
        t.line()
    else:
        t.key(seq)
    t.key(b"c")
    return t.end()


def walk_to_ops(rng, walk, w=None):
    """one walk of the LineEdit state graph -> ops (a new getLine after every enter, like the model)"""
    t = Tracker(rng)
    t.open(w=w if w is not None else rng.choice([4, 4, 5, 5, 6, 8, 20]), q=0 if rng.random() < 0.85 else 1)
    t.line(b"> ")
    for name, args in walk:
        t.key(KEYS[args[0]])
        if not t.in_line:
            t.line()
    return t.end()


# ---------------------------------------------------------------------------------------------

def check(ctx, binary, executions, tag):
    # the trace specification's own vacuity counters (events whose screen was judged / events not judged at all) are
    # printed with TRACE-DONE; vlib.check_executions does not hand them out, so validate_trace is wrapped for the call
    seen = []
    orig = vlib.validate_trace

    def wrapped(*a, **k):
        r, mism, done = orig(*a, **k)
        seen.extend(r.printed)
        return r, mism, done
    vlib.validate_trace = wrapped
    try:
        bad = vlib.check_executions(ctx, binary, executions, tag, SPECDIR, "LineEditTrace", "LineEditTrace.cfg", key_of,
                                    driver_timeout=3000, tlc_timeout=3000)
    finally:
        vlib.validate_trace = orig
    c = ctx.notes.setdefault("trace_spec_counters", {})
    for p in seen:
        if p.startswith('"TRACE-DONE"'):
            v = vlib.parse_tla_value("<<" + p + ">>")
            if len(v) >= 5:
                c[tag] = {"events": v[1], "mismatches": v[2], "screen_judged": v[3], "not_judged": v[4]}
    tally(ctx, os.path.join(ctx.work, "trace_%s.ndjson" % tag))
    return bad


def tally(ctx, path):
    """vacuity counters over what the real Prompt did (notes only)"""
    c = ctx.notes.setdefault("prompt_events", {"keys": 0, "lines_returned": 0, "nonempty_lines": 0, "wrapped_screens": 0,
                                               "typeahead": 0, "max_text": 0, "closes": 0})
    try:
        with open(path) as f:
            for line in f:
                if '"op":"reset"' in line:
                    continue
                e = json.loads(line)
                if e["op"] == "key":
                    c["keys"] += 1
                elif e["op"] == "ahead":
                    c["typeahead"] += 1
                elif e["op"] == "close":
                    c["closes"] += 1
                if e["op"] in ("key", "line") and e["st"] == 1:
                    c["lines_returned"] += 1
                    if e["ret"]:
                        c["nonempty_lines"] += 1
                if len(e["text"]) > e["w"]:
                    c["wrapped_screens"] += 1
                c["max_text"] = max(c["max_text"], len(e["text"]))
    except (OSError, ValueError, KeyError):
        pass


def graph_replay(ctx, binary, cfg, tag, workers=4, max_len=120, timeout=1500):
    dot = os.path.join(ctx.work, "lineedit_%s.dot" % tag)
    r = vlib.tlc(SPECDIR, "LineEdit", cfg, workers=workers, timeout=timeout, dump=dot, xmx="4g")
    ctx.add_tlc("LineEdit:" + cfg, r)
    if not r.ok:
        return
    walks, nedges = vlib.graph_walks(dot, max_len=max_len, seed=ctx.seed)
    os.remove(dot)
    ctx.notes["graph_edges_replayed:" + cfg] = nedges
    kinds = ctx.notes.setdefault("graph_keys", {})
    execs = []
    for w in walks:
        for name, args in w:
            kinds[args[0]] = kinds.get(args[0], 0) + 1
        execs.append(walk_to_ops(ctx.rng, w))
    check(ctx, binary, execs, "graph_" + tag)


def reader_shape():
    """Which transcription in KeyReader.tla corresponds to read*EscapedSequence in the source: 'repo', 'fixed', 'unknown'."""
    try:
        src = open(os.path.join(vlib.REPO, "src", "Console.cpp")).read()
    except OSError:
        return "unknown"
    i = src.find("usize readBufferedEscapedSequence(")
    j = src.find("void concharArrayToString(")
    body = re.sub(r"\s+", "", src[i:j]) if 0 <= i < j else ""
    if not body or "readUnbufferedEscapedSequence(constchar*seqStart,char*buffer)" not in body:
        return "unknown"
    if body.count("if(buffer-seqStart<62)") == 2 and "*(buffer++)=ch;" not in body:
        return "fixed"
    if "*(buffer++)=ch;if(seqStart[1]!='['||!isSeqAttributeChar(ch)){*buffer='\\0';returnbuffer-start;}" in body and \
       "returnbuffer-start;}++buffer;}}" in body:
        return "repo"
    return "unknown"


def reader_layer2(ctx, binary):
    """Layer 2: the key reader transcribed (KeyReader.tla): bounds of the key buffer, progress, refinement of LineEdit's
    framing for every byte sequence up to N with every type-ahead split; the byte sequences are replayed on the real Prompt."""
    rng = ctx.rng
    dot = os.path.join(ctx.work, "keyreader.dot")
    r = vlib.tlc(SPECDIR, "KeyReader", "KeyReader_quick.cfg", workers=2 if ctx.quick else 4, timeout=1500, dump=dot, xmx="4g")
    ctx.add_tlc("KeyReader(fixed,N=5)", r)
    walks = []
    if r.ok:
        walks, nedges = vlib.graph_walks(dot, max_len=50, seed=ctx.seed)
        os.remove(dot)
    if not ctx.quick:
        r = vlib.tlc(SPECDIR, "KeyReader", "KeyReader_fixed.cfg", workers=4, timeout=2400, xmx="4g")
        ctx.add_tlc("KeyReader(fixed,N=6)", r)
    shape = reader_shape()
    ctx.notes["key_reader_shape_in_source"] = shape
    if shape == "repo":
        r = vlib.tlc(SPECDIR, "KeyReader", "KeyReader_repo.cfg", workers=4, timeout=1500, xmx="4g")
        ctx.add_tlc("KeyReader(repo,N=6)", r, must_pass=False)
        ctx.notes["layer2_source_shape_keeps_key_buffer_bounds"] = bool(r.ok)
        if r.broken:
            ctx.broken.append("KeyReader(repo): " + r.broken[:1500])
    elif shape == "unknown":
        ctx.drift += 1
    if ctx.quick and len(walks) > 250:
        walks = rng.sample(walks, 250)
    execs = []
    for w in walks:
        bs = bytes(args[0] for name, args in w)
        ta = rng.randint(0, len(bs)) if rng.random() < 0.6 else 0
        ops = ["open %d 0 0 1" % rng.choice([5, 8, 20])]
        if ta:
            ops.append("junk " + hx(bs[:ta]))
        ops.append("line x3e")
        ops += ["junk " + hx(bs[i:i + 1]) for i in range(ta, len(bs))]
        ops += ["finish", "close"]
        execs.append(ops)
    ctx.notes["key_reader_sequences_replayed"] = len(execs)
    if execs:
        check(ctx, binary, execs, "reader")


def run(ctx):
    binary = build()
    rng = ctx.rng
    # 1. Layer 1 model-checked (caret within the buffer, enter returns exactly the buffer and appends it to the history as
    #    browsed, only enter returns, ...) and every edge of its state graph replayed on the real Prompt through the pty
    if ctx.quick:
        graph_replay(ctx, binary, "LineEdit_quick.cfg", "quick", workers=2)
        graph_replay(ctx, binary, "LineEdit_h2.cfg", "h2", workers=2)       # two history lines, one-character buffer
    else:
        r = vlib.tlc(SPECDIR, "LineEdit", "LineEdit.cfg", workers=4, timeout=1500, xmx="4g")      # larger alphabet: model only
        ctx.add_tlc("LineEdit:LineEdit.cfg", r)
        graph_replay(ctx, binary, "LineEdit_quick.cfg", "quick")
        graph_replay(ctx, binary, "LineEdit_hist.cfg", "hist")
        graph_replay(ctx, binary, "LineEdit_buf3.cfg", "buf3")
    # 1b. Layer 2: the key reader
    reader_layer2(ctx, binary)
    # 2. direction B: random well-formed key sequences (all widths, prompts, type-ahead, pasted and split keys)
    nexec, nlines, nkeys = (120, 3, 18) if ctx.quick else (3000, 4, 30)
    check(ctx, binary, [rand_clean_exec(rng, rng.choice([1, 2, nlines]), nkeys) for _ in range(nexec)], "random")
    # 3. ill-formed / truncated UTF-8 and escape sequences, long control sequences
    nexec = 80 if ctx.quick else 2500
    check(ctx, binary, [rand_junk_exec(rng, 4) for _ in range(nexec)], "illformed")
    nexec = 12 if ctx.quick else 150
    check(ctx, binary, [rand_long_csi_exec(rng) for _ in range(nexec)], "longcsi")
    return vlib.finish(ctx, "model_checking",
                       "LineEdit (buffer, caret, history slots, framing of keys) model-checked; every edge of its state graph "
                       "replayed on the real Console::Prompt behind a pty whose screen is emulated (VT100 subset, cursor reports "
                       "answered), every key validated by TLC against LineEdit (screen = prompt + buffer wrapped at the width, "
                       "cursor at the caret, returned line); seeded random well-formed and ill-formed key sequences validated "
                       "likewise under ASan/UBSan; distinct = distinct op sequences of length >= 2")


def replay(ctx, path):
    binary = build()
    check(ctx, binary, vlib.read_ops_file(path), "replay")
    return vlib.finish(ctx, "model_checking", "replay of one op sequence")
