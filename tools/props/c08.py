"""C08 - Buffer is a faithful byte queue with a terminator and no stray writes."""
import os
import vlib
from vlib import hexs

SPECDIR = os.path.join(vlib.SPEC, "values")


def build():
    return vlib.build("drv_buffer", ["buffer/drv_buffer.cpp"], ["src/Memory.cpp"])


def rand_exec(rng, nops, allow_attach=True):
    ops = []
    for _ in range(nops):
        i = rng.randint(1, 2)
        k = rng.random()
        d = hexs([rng.choice([0, 1, 2, 3, 255]) for _ in range(rng.choice([0, 1, 1, 2, 3, 5]))])
        n = rng.choice([0, 1, 2, 3, 4, 5, 7, 9])
        if k < 0.16:
            ops.append("append %d %s" % (i, d))
        elif k < 0.28:
            ops.append("prepend %d %s" % (i, d))
        elif k < 0.34:
            ops.append("assign %d %s" % (i, d))
        elif k < 0.44:
            ops.append("resize %d %d" % (i, n))
        elif k < 0.50:
            ops.append("reserve %d %d" % (i, n))
        elif k < 0.60:
            ops.append("rmfront %d %d" % (i, rng.choice([0, 1, 1, 2, 3, 3, 9, -1, -2, -5])))      # negative: SIZE_MAX + 1 + n
        elif k < 0.68:
            ops.append("rmback %d %d" % (i, rng.choice([0, 1, 1, 2, 3, 3, 9, -1, -2, -5])))
        elif k < 0.71:
            ops.append("clear %d" % i)
        elif k < 0.74:
            ops.append("free %d" % i)
        elif k < 0.78:
            ops.append("swap %d" % i)
        elif k < 0.81:
            ops.append("copy %d" % i)
        elif k < 0.84:
            ops.append("assignb %d" % i)
        elif k < 0.86:
            ops.append("appendb %d" % i)
        elif k < 0.88:
            ops.append("prependb %d" % i)
        elif k < 0.90:
            ops.append("%s %d" % (rng.choice(["appendself", "prependself", "appendself", "assignself", "swapself"]), i))
        elif k < 0.93:
            ops.append("ctor %d %d" % (i, n))
        elif k < 0.95:
            ops.append("ctord %d %s" % (i, d))
        elif k < 0.97:
            ops.append("eq %d" % i)
        elif allow_attach:
            ops.append("attach %d %d" % (i, rng.randint(0, 8)))
    return ops


def key_of(ops, step):
    """Signature of a failing step: the operation and whether an attach precedes it on either variable."""
    op = ops[step - 1].split()[0] if 0 < step <= len(ops) else "?"
    att = any(o.startswith("attach") for o in ops[:step])
    return "Buffer.%s%s" % (op, ":afterAttach" if att else "")


def check_executions(ctx, binary, executions, tag):
    vlib.check_executions(ctx, binary, executions, tag, SPECDIR, "ByteQueueTrace", "ByteQueueTrace.cfg", key_of)


def label_to_op(name, args):
    op, i, d, n = args
    if op in ("append", "prepend", "assign", "ctord"):
        return "%s %d %s" % (op, i, hexs(d))
    if op in ("resize", "reserve", "rmfront", "rmback", "ctor", "attach"):
        return "%s %d %d" % (op, i, n)
    return "%s %d" % (op, i)


def run(ctx):
    binary = build()
    # 1. the Layer-1 reference itself
    r = vlib.tlc(SPECDIR, "ByteQueue", "ByteQueue.cfg", workers=8, timeout=600)
    ctx.add_tlc("ByteQueue", r)
    # 2. Layer 2: the implementation-shaped model refines Layer 1, keeps the terminator and never writes outside;
    #    its state graph is dumped and every edge becomes an implementation test (direction A)
    cfg = "BufferImpl_small.cfg" if ctx.quick else "BufferImpl.cfg"
    dot = os.path.join(ctx.work, "bufimpl.dot")
    r = vlib.tlc(SPECDIR, "BufferImpl", cfg, workers=8, timeout=1500, dump=dot, coverage=False, xmx="6g")
    ctx.add_tlc("BufferImpl", r)
    if r.ok:
        walks, nedges = vlib.graph_walks(dot, max_len=150, seed=ctx.seed)
        os.remove(dot)
        execs = [[label_to_op(*st) for st in w] for w in walks]
        ctx.notes["graph_edges_replayed"] = nedges
        check_executions(ctx, binary, execs, "graph")
    # 3. direction B: random histories on two real Buffer variables, validated by TLC against ByteQueue
    nexec, nops = (400, 40) if ctx.quick else (5000, 60)
    execs = [rand_exec(ctx.rng, nops) for _ in range(nexec)]
    check_executions(ctx, binary, execs, "random")
    return vlib.finish(ctx, "model_checking",
                       "every edge of the BufferImpl state graph (TLC) replayed on the real Buffer + seeded random op "
                       "histories over two Buffer variables; every step validated by TLC against ByteQueue; "
                       "distinct = distinct op sequences of length >= 2")


def replay(ctx, path):
    binary = build()
    check_executions(ctx, binary, vlib.read_ops_file(path), "replay")
    return vlib.finish(ctx, "model_checking", "replay of one op sequence")
