"""C14 - The event loop honours timers, removals, readiness and interrupts."""
import os
import vlib
from props import c13

SPECDIR = os.path.join(vlib.SPEC, "server")


def build():
    return c13.build()


def key_of(ops, step):
    hist = ops[:step]
    op = hist[-1].split()[0] if hist else "?"
    feats = []
    ntimers = sum(1 for o in hist if o.startswith("timer"))
    if ntimers >= 5:
        feats.append("manyTimers")
    if any(o.startswith("rmtimer") or "rmtimer" in o or "rmself" in o for o in hist):
        feats.append("timerRemoval")
    if any(o.startswith("oncb") for o in hist):
        feats.append("nestedOps")
    if any(o.startswith("interrupt") or "interrupt" in o for o in hist):
        feats.append("interrupt")
    if any(o.startswith("remove") or "remove" in o for o in hist):
        feats.append("clientRemoval")
    return "Server.loop.%s:%s" % (op, "+".join(feats) or "plain")


def rand_action(rng, nc, nt):
    r = rng.random()
    t, c = rng.randint(1, nt), rng.randint(1, nc)
    if r < 0.2:
        return "rmself"
    if r < 0.4:
        return "rmtimer %d" % t
    if r < 0.5:
        return "timer %d %d" % (t, rng.choice([1, 2, 3, 5]))
    if r < 0.6:
        return "remove %d" % c
    if r < 0.66:
        return "write %d %d %s" % (c, rng.randint(1, 6), c13.rand_outcome(rng))
    if r < 0.7:
        return "writeself %d %s" % (rng.randint(1, 6), c13.rand_outcome(rng))      # e.g. the next chunk from inside onWrite
    if r < 0.78:
        return "suspend %d" % c
    if r < 0.86:
        return "resume %d" % c
    if r < 0.92:
        return "interrupt"
    if r < 0.96:
        return "noread"
    return "nop"


def rand_net_exec(rng, nops):
    """Histories with listeners (connections from harness sockets) and establishers (connects to harness listeners)."""
    ops = []
    for _ in range(nops):
        r = rng.random()
        l, e, h, c = rng.randint(1, 2), rng.randint(1, 2), rng.randint(1, 4), rng.randint(1, 3)
        if r < 0.12:
            ops.append("listen %d" % l)
        elif r < 0.28:
            ops.append("pconnect %d %d" % (h, l))
        elif r < 0.34:
            ops.append("rmlisten %d" % l)
        elif r < 0.42:
            ops.append("hlisten %d" % h)
        elif r < 0.54:
            ops.append("conn %d %d" % (e, h))
        elif r < 0.58:
            ops.append("hclose %d" % h)
        elif r < 0.62:
            ops.append("rmconn %d" % e)
        elif r < 0.90:
            steps = []
            for _ in range(rng.randint(1, 4)):
                k = rng.random()
                steps.append("L%d" % rng.randint(1, 2) if k < 0.3 else ("E%d" % rng.randint(1, 2) if k < 0.55 else ("A" if k < 0.8 else ("I%d" % c if k < 0.9 else "T"))))
            for _ in range(rng.choice([0, 0, 1, 2])):
                ops.append("oncb " + rng.choice(["rmlisten %d" % l, "rmconn %d" % e, "remove %d" % c, "reject", "keep", "nop", "write %d 3 F" % c,
                                                 "rmlisten %d;rmconn %d" % (l, e),
                                                 # the new client itself, from inside onAccepted / onConnected
                                                 "writeself %d %s" % (rng.randint(2, 9), c13.rand_outcome(rng)), "suspendself", "rmself",
                                                 "suspendself;writeself 4 W", "writeself 5 P2;suspendself"]))
            ops.append("run " + " ".join(steps))
        elif r < 0.93:
            ops.append("write %d %d %s" % (c, rng.randint(1, 5), rng.choice(["F", "F", c13.rand_outcome(rng)])))
        elif r < 0.96:
            ops.append(rng.choice(["psend %d 3" % c, "psend %d 1" % c, "suspend %d" % c, "resume %d" % c]))
        else:
            ops.append("remove %d" % c)
    # end-of-history probe as in rand_exec: a backlog that is still there was never flushed
    ops += ["resume %d" % c for c in range(1, 4)] + ["run", "run A A A A A A"] + ["check %d" % c for c in range(1, 4)]
    return ops


def rand_exec(rng, nops):
    nc = rng.choice([1, 2, 2])
    nt = rng.choice([2, 4, 6])
    ops = ["pair %d" % c for c in range(1, nc + 1)]
    same_iv = rng.random() < 0.5       # coincident due times
    for _ in range(nops):
        c, t = rng.randint(1, nc), rng.randint(1, nt)
        r = rng.random()
        if r < 0.22:
            ops.append("timer %d %d" % (t, 5 if same_iv else rng.choice([1, 2, 3, 5, 7])))
        elif r < 0.32:
            ops.append("rmtimer %d" % t)
        elif r < 0.62:
            steps = []
            for _ in range(rng.randint(1, 5)):
                k = rng.random()
                cc = rng.randint(1, nc)
                steps.append("S" if k < 0.04 else "T" if k < 0.45 else ("I%d" % cc if k < 0.65 else ("O%d%s" % (cc, c13.rand_outcome(rng)) if k < 0.85 else ("A" if k < 0.93 else "B%d%s" % (cc, c13.rand_outcome(rng))))))
            for _ in range(rng.choice([0, 0, 1, 2, 3])):
                ops.append("oncb " + ";".join(rand_action(rng, nc, nt) for _ in range(rng.choice([1, 1, 2]))))
            ops.append("run " + " ".join(steps))
        elif r < 0.68:
            ops.append("write %d %d %s" % (c, rng.choice([1, 2, 5, 9]), c13.rand_outcome(rng)))
        elif r < 0.74:
            ops.append("psend %d %d" % (c, rng.randint(1, 4)))
        elif r < 0.78:
            ops.append("suspend %d" % c)
        elif r < 0.82:
            ops.append("resume %d" % c)
        elif r < 0.86:
            ops.append("advance %d" % rng.choice([1, 2, 5, 12]))
        elif r < 0.90:
            ops.append("interrupt")
        elif r < 0.93:
            ops.append("pclose %d" % c)
        elif r < 0.955:
            ops.append("remove %d" % c)
        elif r < 0.965:
            ops.append("clear")                   # Server::clear(): the server is used again afterwards
            ops += ["pair %d" % cc for cc in range(1, nc + 1) if rng.random() < 0.7]
        else:
            ops.append("pair %d" % c)
    # end-of-history probe: everything registered as writable-with-backlog must have been dispatched
    ops += ["resume %d" % c for c in range(1, nc + 1)] + ["run", "run A A A A A A"] + ["check %d" % c for c in range(1, nc + 1)]       # (the first run consumes a pending interrupt)
    return ops


def check_executions(ctx, binary, executions, tag):
    return vlib.check_executions(ctx, binary, executions, tag, SPECDIR, "LoopAbsTrace", "LoopAbsTrace.cfg", key_of)


def act_str(a):
    if a[0] == "nop":
        return "nop"
    if a[0] == "rmself":
        return "rmself"
    if a[0] == "rm":
        return "rmtimer %d" % a[1]
    return "timer %d %d" % (a[1], a[2])


def walk_to_ops(walk):
    """RunLoopImpl action labels -> op lines.  The callback actions of a run (Fire(a)) are queued with oncb lines in
    front of the run op, in the order the model fires them."""
    ops = []
    cbs, k, left, inrun = [], 0, 0, False

    def flush():
        for a in cbs:
            ops.append("oncb " + a)
        ops.append("run" + " T" * k)
    for name, args in walk:
        if name == "Time":
            ops.append("timer %d %d" % (args[0], args[1]))
        elif name == "Remove":
            ops.append("rmtimer %d" % args[0])
        elif name == "Advance":
            ops.append("advance %d" % args[0])
        elif name == "BeginRun":
            cbs, k, left, inrun = [], args[0], args[0], True
        elif name == "Fire":
            cbs.append(act_str(args[0]))
        elif name == "Poll":
            if left > 0:
                left -= 1
            else:
                flush()
                inrun = False
    if inrun:
        flush()
    return ops


def build_interrupt():
    return vlib.build("scn_interrupt", ["sched/sched.cpp", "conc/scn_interrupt.cpp"], c13.SRCS, libs=["-ldl"])


def check_interrupt_runs(ctx, binary, runs, tag):
    """interrupt() from other threads racing with run(): executions under the cooperative scheduler."""
    combined, results = vlib.run_sched_executions(binary, runs, ctx.work, tag)
    ctx.evaluations += sum(r.get("steps", 0) for r in results)
    bad = set()
    for i, r in enumerate(results):
        ctx.drift += r.get("diverged", 0)
        if r["verdict"] != "done":
            bad.add(i)
            rp = ctx.save_replay("%s_%d.args" % (tag, i), ["@interrupt " + " ".join(runs[i]) + " --sched " + '"%s"' % r.get("choices", "")])
            ctx.report("Server.interrupt:%s" % r["verdict"], rp, "interrupt scenario verdict %s (%s) for %s\nschedule: %s\n%s" % (
                r["verdict"], r.get("failure", ""), " ".join(runs[i]), r.get("choices", "")[:500], r.get("stderr", "")[-800:]))
    r, mism, done = vlib.validate_trace(SPECDIR, "InterruptAbsTrace", "InterruptAbsTrace.cfg", combined)
    ctx.add_tlc("trace:" + tag, r, must_pass=False)
    if r.violation or (not done and not r.broken):
        ctx.broken.append("trace validation of %s failed: %s" % (tag, (r.violation or "incomplete")[:800]))
    for line, why in mism:
        for i, res in enumerate(results):
            if res["lines"][0] <= line <= res["lines"][1] and i not in bad:
                bad.add(i)
                rp = ctx.save_replay("%s_%d.args" % (tag, i), ["@interrupt " + " ".join(runs[i]) + " --sched " + '"%s"' % res.get("choices", "")])
                ctx.report("Server.interrupt:layer1:" + why, rp, "Layer-1 mismatch (%s) in interrupt scenario %s\nschedule: %s" % (why, " ".join(runs[i]), res.get("choices", "")[:500]))
    ctx.traces += len(runs) - len(bad)
    for a in runs:
        ctx.distinct.add(hash(tuple(a)))


def run_interrupt_part(ctx):
    binary = build_interrupt()
    cfgs = {"a": (1, 1, 0), "b": (2, 2, 0), "c": (2, 2, 1), "d": (3, 2, 0)}
    for n in sorted(cfgs):
        ni, nr, pre = cfgs[n]
        dot = os.path.join(ctx.work, "int_%s.dot" % n)
        r = vlib.tlc(SPECDIR, "InterruptImpl", "InterruptImpl_%s.cfg" % n, workers=4, timeout=600, dump=dot)
        ctx.add_tlc("InterruptImpl_" + n, r)
        if not r.ok:
            continue
        walks, nedges = vlib.graph_walks(dot, max_len=120, seed=ctx.seed)
        os.remove(dot)
        if ctx.quick and len(walks) > 80:
            walks = ctx.rng.sample(walks, 80)
        runs = [["runs=%d" % nr, "ints=%d" % ni, "pre=%d" % pre, "--seed", str(ctx.seed + i), "--spur", "0",
                 "--sched", " ".join(str(st[1][0]) for st in w if st[1])] for i, w in enumerate(walks)]
        check_interrupt_runs(ctx, binary, runs, "intgraph_" + n)
    nrand = 200 if ctx.quick else 4000
    rng = ctx.rng
    runs = []
    for i in range(nrand):
        a = ["runs=%d" % rng.choice([1, 2, 3]), "ints=%d" % rng.choice([1, 2, 3]), "pre=%d" % rng.choice([0, 0, 1]), "timers=%d" % rng.choice([0, 0, 2]),
             "--seed", str(ctx.seed * 7919 + i), "--spur", "0"]
        if rng.random() < 0.5:
            a += ["--pct", str(rng.choice([1, 2, 3])), "--pct-len", "60"]
        runs.append(a)
    check_interrupt_runs(ctx, binary, runs, "intrandom")
    # systematically: every schedule with at most 2 (thorough: 3) preemptions of small interrupt scenarios
    runs = []
    for cfg in (["runs=1", "ints=1", "pre=0"], ["runs=2", "ints=2", "pre=0"], ["runs=2", "ints=1", "pre=1"], ["runs=1", "ints=2", "pre=0", "timers=2"]):
        runs += vlib.preemption_bounded_schedules(binary, cfg + ["--seed", "1", "--spur", "0"], bound=2 if ctx.quick else 3, cap=300 if ctx.quick else 5000)
    ctx.notes["preemption_bounded_interrupt_schedules"] = len(runs)
    check_interrupt_runs(ctx, binary, runs, "intpb")


def run(ctx):
    binary = build()
    # Layer 2 (timer queue, re-queue before callback, removal search, nested actions) refines Layer 1; every edge replayed
    cfgs = ["RunLoopImpl_small.cfg", "RunLoopImpl_coincident.cfg"] if ctx.quick else ["RunLoopImpl_small.cfg", "RunLoopImpl_coincident.cfg", "RunLoopImpl.cfg"]
    for cfg in cfgs:
        dot = os.path.join(ctx.work, cfg + ".dot")
        r = vlib.tlc(SPECDIR, "RunLoopImpl", cfg, workers=8, timeout=1500, dump=dot, xmx="6g")
        ctx.add_tlc(cfg, r)
        if r.ok:
            walks, nedges = vlib.graph_walks(dot, max_len=80, seed=ctx.seed)
            os.remove(dot)
            ctx.notes["graph_edges_replayed:" + cfg] = nedges
            check_executions(ctx, binary, [walk_to_ops(w) for w in walks], "graph_" + cfg.replace(".cfg", ""))
    # ClientWriteImpl behaviours (C13's Layer 2) are also C14 behaviours: dispatch kinds, onClosed after failures
    dot = os.path.join(ctx.work, "cw.dot")
    r = vlib.tlc(SPECDIR, "ClientWriteImpl", "ClientWriteImpl.cfg", workers=8, timeout=900, dump=dot)
    ctx.add_tlc("ClientWriteImpl", r)
    if r.ok:
        walks, nedges = vlib.graph_walks(dot, max_len=100, seed=ctx.seed)
        os.remove(dot)
        if ctx.quick:
            walks = walks[::4]
        check_executions(ctx, binary, [[c13.label_to_op(*x) for x in w] + c13.TAIL for w in walks], "graph_clients")
    nexec, nops = (800, 40) if ctx.quick else (10000, 60)
    # Server::clear() and re-use: timers, clients and - above all - interrupt() must work as on a fresh server
    cleared = [["pair 1", "timer 1 5", "run T", "clear", "interrupt", "run"], ["clear", "run T T"], ["timer 1 3", "clear", "timer 1 3", "run T T", "interrupt", "run T"],
               ["interrupt", "clear", "pair 1", "psend 1 2", "run I1"], ["pair 1", "write 1 9 W", "clear", "pair 1", "write 1 3 F", "run A"] + c13.TAIL,
               ["listen 1", "pconnect 1 1", "clear", "run A", "listen 1", "pconnect 2 1", "run L1"]]
    execs = c13.directed_execs() + cleared + [rand_exec(ctx.rng, nops) for _ in range(nexec)]
    check_executions(ctx, binary, execs, "random")
    # listeners and establishers: acceptable / connected sockets dispatched, nothing after remove (also from callbacks)
    execs = [rand_net_exec(ctx.rng, nops) for _ in range(nexec // 2)]
    # connecting by host name: the resolver thread and interrupt() share one wake-up channel
    rng = ctx.rng
    for i in range(12 if ctx.quick else 120):
        e = ["hlisten 1", "connhost 1 1"]
        if rng.random() < 0.7:
            e.append("waitresolve")
        e += rng.choice([["interrupt", "run"], ["run"], ["interrupt", "interrupt", "run T"], ["rmconn 1", "waitresolve", "run"], ["run T", "interrupt", "run"]])
        e += ["run E1 A", "run A A", rng.choice(["rmconn 1", "hclose 1", "nop_placeholder"]), "run A"]
        execs.append([x for x in e if x != "nop_placeholder"])
    check_executions(ctx, binary, execs, "randomnet")
    # interrupt() from other threads, before or during run(): all interleavings of the protocol by TLC, schedules
    # replayed on the real Server under the cooperative scheduler
    run_interrupt_part(ctx)
    ctx.assumptions.append("interrupt race: sequential consistency at the granularity of mutex calls and poll rounds")
    return vlib.finish(ctx, "model_checking",
                       "every edge of the RunLoopImpl state graphs (timer queue incl. 5 coincident due times, removal and creation "
                       "inside callbacks) and the ClientWriteImpl behaviours replayed on the real Server over the OS shim with a "
                       "virtual clock + seeded random histories (timers, clients, interrupts, nested operations); every timer "
                       "activation, callback, poll and return of run() validated by TLC against LoopAbs; distinct = distinct op sequences")


def replay(ctx, path):
    with open(path) as f:
        first = f.read().strip()
    if first.startswith("@interrupt "):
        import shlex
        check_interrupt_runs(ctx, build_interrupt(), [shlex.split(first[len("@interrupt "):])], "replay")
        return vlib.finish(ctx, "model_checking", "replay")
    binary = build()
    check_executions(ctx, binary, vlib.read_ops_file(path), "replay")
    return vlib.finish(ctx, "model_checking", "replay")
