#!/usr/bin/env python3
"""./check <ID> quick|thorough [--replay <file>] [--selftest]"""
import importlib
import os
import sys
import traceback

sys.path.insert(0, os.path.dirname(os.path.abspath(__file__)))
import vlib  # noqa: E402


def main(argv):
    if len(argv) < 2:
        print(__doc__)
        return 2
    prop = argv[1].upper()
    tier = os.environ.get("VERIF_TIER", "quick")
    replay = None
    selftest = False
    i = 2
    while i < len(argv):
        a = argv[i]
        if a in ("quick", "thorough"):
            tier = a
        elif a == "--replay":
            i += 1
            replay = argv[i]
        elif a == "--selftest":
            selftest = True
        i += 1
    try:
        seed = int(os.environ.get("VERIF_SEED", "1"))
    except ValueError:
        seed = 1
    seed = seed % (2 ** 31 - 1)
    try:
        mod = importlib.import_module("props." + prop.lower())
    except ImportError:
        print("no check for property", prop)
        traceback.print_exc()
        return 2
    ctx = vlib.Ctx(prop, tier, seed, replay)
    try:
        if selftest and hasattr(mod, "selftest"):
            return mod.selftest(ctx)
        if replay:
            return mod.replay(ctx, replay)
        return mod.run(ctx)
    except vlib.BuildError as e:
        # the harness does not compile against the current tree: a broken check, never a VIOLATION
        print("BROKEN-CHECK property=%s: harness build failed\n%s" % (prop, e))
        return 2
    except Exception:
        # an internal failure of the machinery (a tool timed out, a file is missing): a broken check, never a VIOLATION
        print("BROKEN-CHECK property=%s: internal error of the check\n%s" % (prop, traceback.format_exc()[-3000:]))
        return 2
    finally:
        ctx.cleanup()


if __name__ == "__main__":
    sys.exit(main(sys.argv))
