#!/usr/bin/env python3
"""MANIFEST.setup_cmd: offline warm-up.  Syntax-checks the TLA+ modules and pre-builds the harness binaries of the
properties claimed in MANIFEST.json (the checks rebuild them anyway whenever /repo's working tree changes, so a
failure here is reported but does not fail the set-up)."""
import glob
import importlib
import json
import os
import sys
import traceback
from concurrent.futures import ThreadPoolExecutor

sys.path.insert(0, os.path.dirname(os.path.abspath(__file__)))
import vlib  # noqa: E402


def main():
    with open(os.path.join(vlib.VERIF, "MANIFEST.json")) as f:
        claimed = [c["property_id"] for c in json.load(f)["checks"]]
    vlib.graphwalk_bin()
    mods = sorted(glob.glob(os.path.join(vlib.SPEC, "*", "*.tla")))

    def chk(p):
        ok, out = vlib.sany(os.path.dirname(p), os.path.basename(p)[:-4])
        return p, ok, out
    with ThreadPoolExecutor(max_workers=8) as ex:
        for p, ok, out in ex.map(chk, mods):
            print("sany %-55s %s" % (os.path.relpath(p, vlib.VERIF), "ok" if ok else "FAILED"))
            if not ok:
                print(out[-800:])

    def bld(pid):
        try:
            mod = importlib.import_module("props." + pid.lower())
            if hasattr(mod, "build"):
                mod.build()
            return pid, "ok"
        except Exception:
            return pid, "FAILED\n" + traceback.format_exc()[-1500:]
    with ThreadPoolExecutor(max_workers=4) as ex:
        for pid, res in ex.map(bld, claimed):
            print("build %s %s" % (pid, res))
    return 0


if __name__ == "__main__":
    sys.exit(main())
