#!/usr/bin/env python3
"""MANIFEST.setup_cmd: offline warm-up.  Syntax-checks every TLA+ module and pre-builds the harness binaries
(the checks rebuild them anyway whenever /repo's working tree changes)."""
import glob
import importlib
import os
import sys
from concurrent.futures import ThreadPoolExecutor

sys.path.insert(0, os.path.dirname(os.path.abspath(__file__)))
import vlib  # noqa: E402


def main():
    bad = 0
    mods = sorted(glob.glob(os.path.join(vlib.SPEC, "*", "*.tla")))

    def chk(p):
        ok, out = vlib.sany(os.path.dirname(p), os.path.basename(p)[:-4])
        return p, ok, out
    with ThreadPoolExecutor(max_workers=8) as ex:
        for p, ok, out in ex.map(chk, mods):
            print("sany %-50s %s" % (os.path.relpath(p, vlib.VERIF), "ok" if ok else "FAILED"))
            if not ok:
                print(out[-1500:])
                bad += 1
    for f in sorted(glob.glob(os.path.join(vlib.VERIF, "tools", "props", "c*.py"))):
        name = os.path.basename(f)[:-3]
        mod = importlib.import_module("props." + name)
        if hasattr(mod, "build"):
            try:
                mod.build()
                print("build %s ok" % name)
            except vlib.BuildError as e:
                print("build %s FAILED\n%s" % (name, e))
                bad += 1
    return 1 if bad else 0


if __name__ == "__main__":
    sys.exit(main())
