// graphwalk: reads a TLC "-dump dot,actionlabels" state graph and prints op sequences (walks from the initial
// state) that together traverse every edge reachable from the initial state.
// Output: a line "reset" starts a walk, then one action label per line.  Last line: "#edges <n> walks <w> steps <s>".
// Greedy: take an untraversed edge of the current state if any; otherwise follow a shortest path to the nearest
// state that has one (BFS); end the walk at max_len.  usage: graphwalk <dot> <out> [max_len] [seed] [skip-selfloops]
#include <cstdio>
#include <cstdlib>
#include <cstring>
#include <string>
#include <vector>
#include <unordered_map>
#include <deque>
#include <algorithm>
#include <random>

struct Edge { int label; int dst; };
int main(int argc, char** argv)
{
  if(argc < 3) return 2;
  size_t maxLen = argc > 3 ? atoi(argv[3]) : 200;
  unsigned seed = argc > 4 ? atoi(argv[4]) : 1;
  FILE* f = fopen(argv[1], "r");
  if(!f) { perror("dot"); return 2; }
  std::unordered_map<std::string, int> ids, labelIds;
  std::vector<std::string> labels;
  std::vector<std::vector<Edge> > adj;
  int init = -1;
  auto idOf = [&](const std::string& s) { auto it = ids.find(s); if(it != ids.end()) return it->second; int n = (int)ids.size(); ids[s] = n; adj.emplace_back(); return n; };
  size_t cap = 1 << 20; char* line = (char*)malloc(cap);
  while(getline(&line, &cap, f) > 0)
  {
    char* p = line;
    if(!(*p == '-' || (*p >= '0' && *p <= '9'))) continue;
    char* sp = strchr(p, ' ');
    if(!sp) continue;
    std::string a(p, sp - p);
    if(strncmp(sp, " -> ", 4) == 0)
    {
      char* q = sp + 4; char* sp2 = strchr(q, ' ');
      std::string b(q, sp2 - q);
      char* l = strstr(sp2, "[label=\"");
      if(!l) continue;
      l += 8;
      std::string lab;
      for(; *l && *l != '"'; ++l) { if(*l == '\\' && l[1]) { ++l; } lab += *l; }
      int li; auto it = labelIds.find(lab);
      if(it == labelIds.end()) { li = (int)labels.size(); labelIds[lab] = li; labels.push_back(lab); } else li = it->second;
      int u = idOf(a), v = idOf(b);
      adj[u].push_back(Edge{li, v});
    }
    else if(strncmp(sp, " [label=", 8) == 0)
    {
      int u = idOf(a);
      if(strstr(sp, "style = filled") && init < 0) init = u;
    }
  }
  fclose(f);
  if(init < 0) { fprintf(stderr, "no initial state\n"); return 2; }
  int n = (int)adj.size();
  std::mt19937 rng(seed);
  // dedupe identical (label,dst) edges (strict digraph prints duplicates when several disjuncts coincide)
  size_t total = 0;
  std::vector<std::vector<Edge> > todo(n);
  std::vector<char> reach(n, 0);
  { std::deque<int> dq; dq.push_back(init); reach[init] = 1; while(!dq.empty()) { int u = dq.front(); dq.pop_front(); for(auto& e : adj[u]) if(!reach[e.dst]) { reach[e.dst] = 1; dq.push_back(e.dst); } } }
  for(int u = 0; u < n; ++u) if(reach[u])
  {
    std::vector<Edge> es = adj[u];
    std::sort(es.begin(), es.end(), [](const Edge& a, const Edge& b) { return a.label != b.label ? a.label < b.label : a.dst < b.dst; });
    es.erase(std::unique(es.begin(), es.end(), [](const Edge& a, const Edge& b) { return a.label == b.label && a.dst == b.dst; }), es.end());
    std::shuffle(es.begin(), es.end(), rng);
    todo[u] = es; total += es.size();
  }
  FILE* out = fopen(argv[2], "w");
  size_t remaining = total, walks = 0, steps = 0;
  std::vector<int> par(n), parLab(n), stamp(n, 0); int curStamp = 0;
  std::vector<int> path;
  while(remaining)
  {
    int cur = init; size_t len = 0; bool any = false;
    std::string buf = "reset\n";
    for(;;)
    {
      if(todo[cur].empty())
      {
        // BFS to nearest state with work
        ++curStamp; std::deque<int> dq; dq.push_back(cur); stamp[cur] = curStamp; par[cur] = -1; int found = -1;
        while(!dq.empty() && found < 0)
        {
          int x = dq.front(); dq.pop_front();
          for(auto& e : adj[x]) if(stamp[e.dst] != curStamp)
          {
            stamp[e.dst] = curStamp; par[e.dst] = x; parLab[e.dst] = e.label;
            if(!todo[e.dst].empty()) { found = e.dst; break; }
            dq.push_back(e.dst);
          }
        }
        if(found < 0) break;
        path.clear();
        for(int v = found; par[v] >= 0 || v != cur; v = par[v]) { path.push_back(v); if(par[v] < 0) break; }
        if(len && len + path.size() >= maxLen) break;
        for(size_t k = path.size(); k-- > 0;) { buf += labels[parLab[path[k]]]; buf += '\n'; ++len; }
        cur = found;
      }
      Edge e = todo[cur].back(); todo[cur].pop_back(); --remaining;
      buf += labels[e.label]; buf += '\n'; ++len; cur = e.dst; any = true;
      if(len >= maxLen) break;
    }
    if(!any) break;
    fputs(buf.c_str(), out); ++walks; steps += len;
  }
  fprintf(out, "#edges %zu walks %zu steps %zu\n", total, walks, steps);
  fclose(out);
  fprintf(stderr, "graphwalk: states %d edges %zu walks %zu steps %zu uncovered %zu\n", n, total, walks, steps, remaining);
  return remaining ? 1 : 0;
}
