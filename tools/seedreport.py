#!/usr/bin/env python3
"""Writes seeded/REPORT.md: which checks catch which seeded changes (from seeded/*/meta.json)."""
import glob
import json
import os

VERIF = os.path.dirname(os.path.dirname(os.path.abspath(__file__)))
rows = []
for m in sorted(glob.glob(os.path.join(VERIF, "seeded", "*", "meta.json"))):
    d = json.load(open(m))
    readme = os.path.join(os.path.dirname(m), "README.md")
    first = ""
    if os.path.exists(readme):
        for line in open(readme):
            line = line.strip()
            if line and not line.startswith("#"):
                first = line[:160]
                break
    checks = "; ".join("%s: %s" % (k, v["result"]) for k, v in sorted(d.get("checks", {}).items()))
    re = "; ".join("%s: %s (%s)" % (r["check"], r["result"], r.get("note", "")[:120]) for r in d.get("rechecks", []))
    rows.append("| %s | %s | %s | %s | %s | %s |" % (d["name"], d["property"], "yes" if d.get("confirmed") else "NO", checks, re.replace("|", "/"), first.replace("|", "/")))
with open(os.path.join(VERIF, "seeded", "REPORT.md"), "w") as f:
    f.write("# Seeded changes (written by independent sub-agents) and the checks' verdicts\n\n")
    f.write("confirmed = the change applies, the library builds, the repository's 34 tests pass, the demonstration fails with the change and passes without it.\n\n")
    f.write("checks = verdicts when the change was first evaluated; after strengthening = re-evaluation (tools/seedrecheck.py) once a miss had led to a stronger check.\n\n")
    f.write("| seed | property | confirmed | checks | after strengthening | what it is |\n|---|---|---|---|---|---|\n")
    f.write("\n".join(rows) + "\n")
print(len(rows), "seeds;", sum(1 for r in rows if "MISSED" in r.split("|")[4]), "with a MISSED verdict at first evaluation")
