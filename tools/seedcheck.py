#!/usr/bin/env python3
"""Confirm a seeded change and evaluate the checks against it.

usage: seedcheck.py <ID> <seed dir with patch.diff demo.cpp README.md> [--name <name>] [--checks C12,C05] [--tier quick]
 1. scratch git worktree of /repo HEAD under /tmp, patch applied there (never in /repo)
 2. the library builds and the repository's 34 tests pass with the change
 3. the demonstration fails with the change and passes without it (against /repo/_build)
 4. ./check <ID> <tier> with VERIF_REPO=<patched tree>: caught / missed
 5. everything is kept in /verif/seeded/<name>/ (patch.diff, demo.cpp, README.md, meta.json); scratch removed
"""
import json
import os
import shutil
import subprocess
import sys
import tempfile
import time

VERIF = os.path.dirname(os.path.dirname(os.path.abspath(__file__)))


def sh(cmd, timeout=1800, env=None, cwd=None):
    try:
        p = subprocess.run(cmd, shell=isinstance(cmd, str), stdout=subprocess.PIPE, stderr=subprocess.STDOUT, timeout=timeout, env=env, cwd=cwd)
        return p.returncode, p.stdout.decode("utf-8", "replace")
    except subprocess.TimeoutExpired as e:
        return 124, (e.stdout or b"").decode("utf-8", "replace") + "[timeout]"


def libs(tree):
    b = os.path.join(tree, "_build", "src")
    return [os.path.join(b, "Socket", "libnstdSocket.a"), os.path.join(b, "Document", "libnstdDocument.a"),
            os.path.join(b, "Crypto", "libnstdCrypto.a"), os.path.join(b, "libnstd.a")]


def run_demo(tree, demo, workdir, tag):
    exe = os.path.join(workdir, "demo_" + tag)
    rc, out = sh(["g++", "-std=c++11", "-g", "-I" + os.path.join(tree, "include"), "-I" + os.path.join(tree, "src"), demo] + libs(tree) + ["-lpthread", "-ldl", "-o", exe], timeout=300)
    if rc != 0:
        return None, "demo does not compile: " + out[-1500:]
    rc, out = sh(["timeout", "60", exe], timeout=90, cwd=workdir)
    return rc, out[-1500:]


def main():
    pid = sys.argv[1].upper()
    seed = os.path.abspath(sys.argv[2])
    name = None
    checks = [pid]
    tier = "quick"
    a = sys.argv[3:]
    while a:
        if a[0] == "--name":
            name = a[1]; a = a[2:]
        elif a[0] == "--checks":
            checks = a[1].split(","); a = a[2:]
        elif a[0] == "--tier":
            tier = a[1]; a = a[2:]
        else:
            a = a[1:]
    name = name or "%s-%s" % (pid, os.path.basename(seed.rstrip("/")))
    meta = {"property": pid, "name": name, "date": time.strftime("%Y-%m-%d %H:%M"), "steps": {}}
    tmp = tempfile.mkdtemp(prefix="verif-seed-")
    wt = os.path.join(tmp, "wt")
    try:
        rc, out = sh(["git", "-C", "/repo", "worktree", "add", "--detach", wt, "HEAD"])
        if rc != 0:
            print("cannot create worktree", out); return 2
        rc, out = sh(["git", "-C", wt, "apply", os.path.join(seed, "patch.diff")])
        meta["steps"]["apply"] = "ok" if rc == 0 else "FAILED: " + out[-500:]
        if rc != 0:
            print(json.dumps(meta, indent=1)); return 1
        rc, out = sh("cmake -G Ninja -S %s -B %s/_build >/dev/null && cmake --build %s/_build 2>&1 | tail -3" % (wt, wt, wt))
        meta["steps"]["build"] = "ok" if rc == 0 and "FAILED" not in out and "error" not in out.lower() else "FAILED: " + out[-800:]
        rc, out = sh("ctest --test-dir %s/_build -j8 --timeout 900 2>&1 | tail -5" % wt)
        for _ in range(2):     # other jobs run the suite too (fixed ports, load): failed tests are re-run alone before concluding
            if "100% tests passed" in out:
                break
            rc2, out2 = sh("ctest --test-dir %s/_build --rerun-failed -j1 --timeout 900 2>&1 | tail -5" % wt)
            if "100% tests passed" in out2:
                out = "100% tests passed, 0 tests failed out of 34 (after re-running the failed ones alone)"
            else:
                out = out2
        meta["steps"]["ctest"] = "34/34 pass" if "100% tests passed" in out and "out of 34" in out else "FAILED: " + out[-800:]
        demo = os.path.join(seed, "demo.cpp")
        rc1, out1 = run_demo(wt, demo, tmp, "patched")
        rc0, out0 = run_demo("/repo", demo, tmp, "head")
        meta["steps"]["demo_with_change"] = {"rc": rc1, "out": out1[-400:]}
        meta["steps"]["demo_without_change"] = {"rc": rc0, "out": out0[-400:]}
        meta["confirmed"] = bool(meta["steps"]["build"] == "ok" and meta["steps"]["ctest"].startswith("34/34") and rc0 == 0 and rc1 not in (0, None))
        meta["checks"] = {}
        env = dict(os.environ, VERIF_REPO=wt, VERIF_BUILD=os.path.join(tmp, "vbuild"), VERIF_EVIDENCE=os.path.join(tmp, "ev"))
        for c in checks:
            t0 = time.time()
            rc, out = sh([os.path.join(VERIF, "check"), c, tier], env=env, timeout=3600)
            viol = [l for l in out.splitlines() if l.startswith("VIOLATION property=")]
            keys = [l for l in out.splitlines() if l.startswith("--- violation key=")]
            res = "CAUGHT" if rc == 1 and viol else ("MISSED" if rc == 0 else "BROKEN rc=%d" % rc)
            meta["checks"]["%s %s" % (c, tier)] = {"result": res, "violations": len(viol), "keys": keys[:6], "wall_s": round(time.time() - t0),
                                                   "tail": out[-600:] if res.startswith("BROKEN") else ""}
        dst = os.path.join(VERIF, "seeded", name)
        os.makedirs(dst, exist_ok=True)
        for f in ("patch.diff", "demo.cpp", "README.md"):
            if os.path.exists(os.path.join(seed, f)):
                shutil.copy(os.path.join(seed, f), os.path.join(dst, f))
        with open(os.path.join(dst, "meta.json"), "w") as f:
            json.dump(meta, f, indent=1)
        print(json.dumps({k: meta[k] for k in ("name", "confirmed", "checks")}, indent=1))
        print("steps:", {k: (v if isinstance(v, str) else v.get("rc")) for k, v in meta["steps"].items()})
        return 0
    finally:
        sh(["git", "-C", "/repo", "worktree", "remove", "--force", wt])
        shutil.rmtree(tmp, ignore_errors=True)


if __name__ == "__main__":
    sys.exit(main())
