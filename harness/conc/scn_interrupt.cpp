// Scenario for the interrupt clause of property C14: Server::run() in one thread, Server::interrupt() from other
// threads, under the cooperative scheduler.  epoll_wait is interposed here: it never blocks the process - it polls the
// kernel with time-out 0 and otherwise yields to the scheduler; after a few idle polls the requested time-out elapses
// on the virtual clock (so timers fire) - the eventfd and its readiness are real.
//   runs=<k> ints=<interrupter threads> pre=<0|1 an interrupt before the first run> timers=<n>
// Every interrupter issues its i-th interrupt only after the i-th run() has been entered, so every run() has an
// interrupt that was requested after it started (or is still pending) and must return.
#include "../sched/sched.h"
#include <stdio.h>
#include <stdlib.h>
#include <string.h>
#include <dlfcn.h>
#include <sys/epoll.h>
#include <nstd/Socket/Server.hpp>

static Server* srv = 0;
static int nruns = 1, nints = 1, pre = 0, ntimers = 0;
static volatile int runCalls = 0, runRets = 0, fired = 0;

typedef int (*epoll_wait_fn)(int, struct epoll_event*, int, int);
extern "C" int usleep(unsigned);
extern "C" int epoll_wait(int epfd, struct epoll_event* evs, int maxevents, int timeout)
{
  static epoll_wait_fn real = 0;
  if(!real) real = (epoll_wait_fn)dlsym(RTLD_NEXT, "epoll_wait");
  if(!sched_self()) return real(epfd, evs, maxevents, timeout);
  for(int polls = 0;; ++polls)
  {
    int n = real(epfd, evs, maxevents, 0);
    if(n != 0 || timeout == 0) return n;
    if(polls >= 3) { if(timeout > 0) usleep((unsigned)timeout * 1000); return 0; }   // the time-out elapses (virtual clock)
    sched_point("epoll_wait");
  }
}

struct TimerCb : public Server::Timer::ICallback
{
  virtual void onActivated() { ++fired; sched_event("\"op\":\"fired\",\"n\":%d", (int)fired); }
};
static TimerCb timerCb;

static void runner(void*)
{
  for(int i = 1; i <= nruns; ++i)
  {
    ++runCalls;
    sched_event("\"op\":\"run_call\",\"i\":%d", i);
    srv->run();
    ++runRets;
    sched_event("\"op\":\"run_ret\",\"i\":%d", i);
  }
}
static void interrupter(void* arg)
{
  int me = (int)(long)arg;
  for(int i = 1; i <= nruns; ++i)
  {
    while(runCalls < i) sched_point("await_run");
    sched_event("\"op\":\"int_call\",\"t\":%d,\"i\":%d", me, i);
    srv->interrupt();
    sched_event("\"op\":\"int_ret\",\"t\":%d,\"i\":%d", me, i);
  }
}

extern "C" void scenario_setup(void)
{
  nruns = sched_param_int("runs", 1);
  nints = sched_param_int("ints", 1);
  pre = sched_param_int("pre", 0);
  ntimers = sched_param_int("timers", 0);
  srv = new Server;
  for(int i = 0; i < ntimers; ++i) srv->time(5 + i, timerCb);
  sched_event("\"op\":\"setup\",\"runs\":%d,\"ints\":%d,\"pre\":%d", nruns, nints, pre);
  if(pre) { sched_event("\"op\":\"int_call\",\"t\":0,\"i\":0"); srv->interrupt(); sched_event("\"op\":\"int_ret\",\"t\":0,\"i\":0"); }
  sched_spawn(runner, 0);
  for(int k = 1; k <= nints; ++k) sched_spawn(interrupter, (void*)(long)k);
}
extern "C" void scenario_finish(void)
{
  if(runRets != nruns) sched_fail("run() returned %d times for %d calls", (int)runRets, nruns);
}
