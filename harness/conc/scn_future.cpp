// Scenario for property C10: client threads start functions through Future<int> objects on the shared worker pool and
// join them, under the cooperative scheduler.  The pool constants are overridden through the NSTD_VERIF hook
// (poolmax / poolcap / poolmin parameters), every atomic access, plain protocol read and pthread call is a
// scheduling point.  Futures live on the heap and are deleted right after the join / result conversion (the
// documented usage): the shim reports any pthread call on a destroyed mutex / condition variable.
//   clients=<n> futs=<futures per client> mode=<0 join then read result | 1 result conversion | 2 restart same future | 3 sequential calls after an idle period | 4 restart same future, then result conversion without join | 5 every start() overload once (22 overloads), client 1 only | 6 Future<Res> (heap-owning result), every second future destroyed without join>
//   abort=<0|1> sleep=<ms virtual sleep of client 1 between start and join: lets the pool's idle clock advance>
#include "../sched/sched.h"
#include <stdio.h>
#include <stdlib.h>
#include <string.h>
#include <unistd.h>
#include <nstd/Future.hpp>

enum { MAXC = 4, MAXF = 4 };
static int nclients = 2, nfuts = 1, mode = 0, doAbort = 0, sleepMs = 0, workYield = 1;
static volatile int execCount[64];

static int work(int id)
{
  ++execCount[id];
  sched_event("\"op\":\"exec\",\"f\":%d", id);
  if(workYield) sched_point("work");
  sched_event("\"op\":\"done\",\"f\":%d", id);
  return id * 10 + 1;
}

// ---- mode 5: every start() overload once (Future<void> / Future<int>, plain function / member function, 0..5
// arguments).  Call f = 40 + overload number; argument i of call f must arrive as f * 100 + i; the function reports
// ---- mode 6: Future<Res> with a result type that owns heap memory; every second future is destroyed WITHOUT join while its
// call may still be running: the destructor has to wait for the call, and the result object has to outlive it
static __thread int g_resOwner = -1;            // id of the call whose Future<Res> is being constructed (its embedded result picks it up)
struct Res
{
  int* p; int owner; bool alive;
  Res() : p(new int(0)), owner(g_resOwner), alive(true) { g_resOwner = -1; }
  Res(int v) : p(new int(v)), owner(-1), alive(true) {}
  Res(const Res& o) : p(new int(*o.p)), owner(-1), alive(true) {}
  Res& operator=(const Res& o)
  {
    if(!alive) sched_fail("the result object of call %d is assigned after its destruction", owner);
    int* n = new int(*o.p); delete p; p = n; return *this;
  }
  ~Res() { if(owner >= 0) sched_event("\"op\":\"resdead\",\"f\":%d", owner); alive = false; delete p; p = 0; }
};
static Res workres(int id)
{
  ++execCount[id];
  sched_event("\"op\":\"exec\",\"f\":%d", id);
  if(workYield) sched_point("work");
  sched_event("\"op\":\"done\",\"f\":%d", id);
  return Res(id * 10 + 1);
}
static void client_res(int c)
{
  Future<Res>* fut[MAXF];
  for(int i = 0; i < nfuts; ++i)
  {
    int id = c * 8 + i;
    g_resOwner = id;
    fut[i] = new Future<Res>;
    sched_event("\"op\":\"start\",\"f\":%d,\"c\":%d", id, c);
    fut[i]->start(&workres, id);
    sched_event("\"op\":\"started\",\"f\":%d,\"c\":%d", id, c);
    if(doAbort == 1 && (id & 1)) { sched_event("\"op\":\"abort\",\"f\":%d", id); fut[i]->abort(); }
  }
  for(int i = 0; i < nfuts; ++i)
  {
    int id = c * 8 + i;
    if((i + c) % 2 == 0)
    {
      sched_event("\"op\":\"join\",\"f\":%d", id);
      Res r = *fut[i];
      sched_event("\"op\":\"joinret\",\"f\":%d,\"r\":%d,\"fin\":%s,\"ab\":%s,\"execs\":%d", id, *r.p,
                  fut[i]->isFinished() ? "true" : "false", fut[i]->isAborted() ? "true" : "false", (int)execCount[id]);
    }
    sched_event("\"op\":\"dtor\",\"f\":%d", id);
    delete fut[i];                      // without join for every second future
    sched_event("\"op\":\"deleted\",\"f\":%d", id);
  }
}

// f * 10 + 1 only if all of them did (FutureAbs demands that value), through the result or - for Future<void> - a slot.
static volatile int voidResult[64];
static int ovl_body(int f, int n, int a1 = 0, int a2 = 0, int a3 = 0, int a4 = 0, int a5 = 0)
{
  int a[5] = { a1, a2, a3, a4, a5 }, ok = 1;
  for(int i = 0; i < n; ++i) if(a[i] != f * 100 + i + 1) ok = 0;
  ++execCount[f];
  sched_event("\"op\":\"exec\",\"f\":%d", f);
  if(workYield) sched_point("work");
  sched_event("\"op\":\"done\",\"f\":%d", f);
  return ok ? f * 10 + 1 : -1;
}
#define A(f, i) ((f) * 100 + (i))
static int fi0() { return ovl_body(40, 0); }
static int fi1(int a) { return ovl_body(41, 1, a); }
static int fi2(int a, int b) { return ovl_body(42, 2, a, b); }
static int fi3(int a, int b, int c) { return ovl_body(43, 3, a, b, c); }
static int fi4(int a, int b, int c, int d) { return ovl_body(44, 4, a, b, c, d); }
static int fi5(int a, int b, int c, int d, int e) { return ovl_body(45, 5, a, b, c, d, e); }
static void fv0() { voidResult[46] = ovl_body(46, 0); }
static void fv1(int a) { voidResult[47] = ovl_body(47, 1, a); }
static void fv2(int a, int b) { voidResult[48] = ovl_body(48, 2, a, b); }
static void fv3(int a, int b, int c) { voidResult[49] = ovl_body(49, 3, a, b, c); }
static void fv4(int a, int b, int c, int d) { voidResult[50] = ovl_body(50, 4, a, b, c, d); }
static void fv5(int a, int b, int c, int d, int e) { voidResult[51] = ovl_body(51, 5, a, b, c, d, e); }
struct Obj5
{
  int tag;
  int mi0() { return tag == 7 ? ovl_body(52, 0) : -1; }
  int mi1(int a) { return tag == 7 ? ovl_body(53, 1, a) : -1; }
  int mi2(int a, int b) { return tag == 7 ? ovl_body(54, 2, a, b) : -1; }
  int mi3(int a, int b, int c) { return tag == 7 ? ovl_body(55, 3, a, b, c) : -1; }
  int mi4(int a, int b, int c, int d) { return tag == 7 ? ovl_body(56, 4, a, b, c, d) : -1; }
  void mv0() { voidResult[57] = tag == 7 ? ovl_body(57, 0) : -1; }
  void mv1(int a) { voidResult[58] = tag == 7 ? ovl_body(58, 1, a) : -1; }
  void mv2(int a, int b) { voidResult[59] = tag == 7 ? ovl_body(59, 2, a, b) : -1; }
  void mv3(int a, int b, int c) { voidResult[60] = tag == 7 ? ovl_body(60, 3, a, b, c) : -1; }
  void mv4(int a, int b, int c, int d) { voidResult[61] = tag == 7 ? ovl_body(61, 4, a, b, c, d) : -1; }
};
static void ovl_events_start(int f, int c) { sched_event("\"op\":\"start\",\"f\":%d,\"c\":%d", f, c); }
static void ovl_join_int(Future<int>& fu, int f)
{
  sched_event("\"op\":\"started\",\"f\":%d,\"c\":1", f);
  sched_event("\"op\":\"join\",\"f\":%d", f);
  int r = fu;
  sched_event("\"op\":\"joinret\",\"f\":%d,\"r\":%d,\"fin\":%s,\"ab\":%s,\"execs\":%d", f, r, fu.isFinished() ? "true" : "false", fu.isAborted() ? "true" : "false", (int)execCount[f]);
}
static void ovl_join_void(Future<void>& fu, int f)
{
  sched_event("\"op\":\"started\",\"f\":%d,\"c\":1", f);
  sched_event("\"op\":\"join\",\"f\":%d", f);
  fu.join();
  sched_event("\"op\":\"joinret\",\"f\":%d,\"r\":%d,\"fin\":%s,\"ab\":%s,\"execs\":%d", f, (int)voidResult[f], fu.isFinished() ? "true" : "false", fu.isAborted() ? "true" : "false", (int)execCount[f]);
}
static void overload_sweep()
{
  Obj5 o; o.tag = 7;
  { Future<int> f; ovl_events_start(40, 1); f.start(&fi0); ovl_join_int(f, 40); }
  { Future<int> f; ovl_events_start(41, 1); f.start(&fi1, A(41, 1)); ovl_join_int(f, 41); }
  { Future<int> f; ovl_events_start(42, 1); f.start(&fi2, A(42, 1), A(42, 2)); ovl_join_int(f, 42); }
  { Future<int> f; ovl_events_start(43, 1); f.start(&fi3, A(43, 1), A(43, 2), A(43, 3)); ovl_join_int(f, 43); }
  { Future<int> f; ovl_events_start(44, 1); f.start(&fi4, A(44, 1), A(44, 2), A(44, 3), A(44, 4)); ovl_join_int(f, 44); }
  { Future<int> f; ovl_events_start(45, 1); f.start(&fi5, A(45, 1), A(45, 2), A(45, 3), A(45, 4), A(45, 5)); ovl_join_int(f, 45); }
  { Future<void> f; ovl_events_start(46, 1); f.start(&fv0); ovl_join_void(f, 46); }
  { Future<void> f; ovl_events_start(47, 1); f.start(&fv1, A(47, 1)); ovl_join_void(f, 47); }
  { Future<void> f; ovl_events_start(48, 1); f.start(&fv2, A(48, 1), A(48, 2)); ovl_join_void(f, 48); }
  { Future<void> f; ovl_events_start(49, 1); f.start(&fv3, A(49, 1), A(49, 2), A(49, 3)); ovl_join_void(f, 49); }
  { Future<void> f; ovl_events_start(50, 1); f.start(&fv4, A(50, 1), A(50, 2), A(50, 3), A(50, 4)); ovl_join_void(f, 50); }
  { Future<void> f; ovl_events_start(51, 1); f.start(&fv5, A(51, 1), A(51, 2), A(51, 3), A(51, 4), A(51, 5)); ovl_join_void(f, 51); }
  { Future<int> f; ovl_events_start(52, 1); f.start(o, &Obj5::mi0); ovl_join_int(f, 52); }
  { Future<int> f; ovl_events_start(53, 1); f.start(o, &Obj5::mi1, A(53, 1)); ovl_join_int(f, 53); }
  { Future<int> f; ovl_events_start(54, 1); f.start(o, &Obj5::mi2, A(54, 1), A(54, 2)); ovl_join_int(f, 54); }
  { Future<int> f; ovl_events_start(55, 1); f.start(o, &Obj5::mi3, A(55, 1), A(55, 2), A(55, 3)); ovl_join_int(f, 55); }
  { Future<int> f; ovl_events_start(56, 1); f.start(o, &Obj5::mi4, A(56, 1), A(56, 2), A(56, 3), A(56, 4)); ovl_join_int(f, 56); }
  { Future<void> f; ovl_events_start(57, 1); f.start(o, &Obj5::mv0); ovl_join_void(f, 57); }
  { Future<void> f; ovl_events_start(58, 1); f.start(o, &Obj5::mv1, A(58, 1)); ovl_join_void(f, 58); }
  { Future<void> f; ovl_events_start(59, 1); f.start(o, &Obj5::mv2, A(59, 1), A(59, 2)); ovl_join_void(f, 59); }
  { Future<void> f; ovl_events_start(60, 1); f.start(o, &Obj5::mv3, A(60, 1), A(60, 2), A(60, 3)); ovl_join_void(f, 60); }
  { Future<void> f; ovl_events_start(61, 1); f.start(o, &Obj5::mv4, A(61, 1), A(61, 2), A(61, 3), A(61, 4)); ovl_join_void(f, 61); }
}

static void client(void* arg)
{
  int c = (int)(long)arg;
  if(mode == 5) { if(c == 1) overload_sweep(); return; }
  if(mode == 6) { client_res(c); return; }
  Future<int>* fut[MAXF];
  // failcreate=1: the pool's first attempt to create a worker thread fails (EAGAIN); the calls started later must still find a worker
  if(c == 1 && sched_param_int("failcreate", 0)) sched_fail_next_create();
  for(int i = 0; i < nfuts; ++i)
  {
    int id = c * 8 + i;
    fut[i] = new Future<int>;
    // abort=2: abort() is requested BEFORE the start (on an idle future): it must not count as an abort of this call
    if(doAbort == 2 && (id & 1)) { sched_event("\"op\":\"abort_idle\",\"f\":%d", id); fut[i]->abort(); }
    sched_event("\"op\":\"start\",\"f\":%d,\"c\":%d", id, c);
    fut[i]->start(&work, id);
    sched_event("\"op\":\"started\",\"f\":%d,\"c\":%d", id, c);
    if(doAbort == 1 && (id & 1)) { sched_event("\"op\":\"abort\",\"f\":%d", id); fut[i]->abort(); }
  }
  if(sleepMs && c == 1) usleep((useconds_t)sleepMs * 1000);
  if(mode == 2 || mode == 4)
  {
    // start the same future object again without joining first: start() must wait for the first call
    int id = c * 8, id2 = c * 8 + 4;
    sched_event("\"op\":\"start\",\"f\":%d,\"c\":%d,\"after\":%d", id2, c, id);
    fut[0]->start(&work, id2);
    sched_event("\"op\":\"started\",\"f\":%d,\"c\":%d,\"after\":%d", id2, c, id);
  }
  if(mode == 3 && c == 1)
  {
    // after the concurrent phase and an idle period (the pool may retire workers), a series of sequential calls:
    // every one of them must still find a worker
    for(int i = 0; i < nfuts; ++i)
    {
      int id = c * 8 + i;
      sched_event("\"op\":\"join\",\"f\":%d", id);
      int r = *fut[i];
      sched_event("\"op\":\"joinret\",\"f\":%d,\"r\":%d,\"fin\":%s,\"ab\":%s,\"execs\":%d", id, r,
                  fut[i]->isFinished() ? "true" : "false", fut[i]->isAborted() ? "true" : "false", (int)execCount[id]);
      delete fut[i];
      sched_event("\"op\":\"deleted\",\"f\":%d", id);
    }
    usleep(3000 * 1000);
    for(int k = 0; k < 5; ++k)
    {
      int id = 40 + k;
      Future<int>* f = new Future<int>;
      sched_event("\"op\":\"start\",\"f\":%d,\"c\":%d", id, c);
      f->start(&work, id);
      sched_event("\"op\":\"started\",\"f\":%d,\"c\":%d", id, c);
      sched_event("\"op\":\"join\",\"f\":%d", id);
      int r = *f;
      sched_event("\"op\":\"joinret\",\"f\":%d,\"r\":%d,\"fin\":%s,\"ab\":%s,\"execs\":%d", id, r,
                  f->isFinished() ? "true" : "false", f->isAborted() ? "true" : "false", (int)execCount[id]);
      delete f;
      sched_event("\"op\":\"deleted\",\"f\":%d", id);
      if(k == 1) usleep(3000 * 1000);
    }
    return;
  }
  for(int i = 0; i < nfuts; ++i)
  {
    int id = ((mode == 2 || mode == 4) && i == 0) ? c * 8 + 4 : c * 8 + i;
    sched_event("\"op\":\"join\",\"f\":%d", id);
    int r;
    if(mode == 1 || mode == 4) r = *fut[i];        // result conversion joins (mode 4: on a future object used for its second call)
    else { fut[i]->join(); r = *fut[i]; }
    sched_event("\"op\":\"joinret\",\"f\":%d,\"r\":%d,\"fin\":%s,\"ab\":%s,\"execs\":%d", id, r,
                fut[i]->isFinished() ? "true" : "false", fut[i]->isAborted() ? "true" : "false", (int)execCount[id]);
    delete fut[i];
    sched_event("\"op\":\"deleted\",\"f\":%d", id);
  }
}

extern "C" void scenario_setup(void)
{
  nclients = sched_param_int("clients", 2);
  nfuts = sched_param_int("futs", 1);
  mode = sched_param_int("mode", 0);
  doAbort = sched_param_int("abort", 0);
  sleepMs = sched_param_int("sleep", 0);
  workYield = sched_param_int("workyield", 1);
  if(nclients > MAXC) nclients = MAXC;
  if(nfuts > MAXF) nfuts = MAXF;
  sched_event("\"op\":\"setup\",\"clients\":%d,\"futs\":%d,\"mode\":%d", nclients, nfuts, mode);
  for(int c = 1; c <= nclients; ++c) sched_spawn(client, (void*)(long)c);
}

extern "C" void scenario_finish(void)
{
  if(mode == 5)
  {
    for(int f = 40; f <= 61; ++f) if(execCount[f] != 1) sched_fail("overload call %d executed %d times", f, (int)execCount[f]);
    return;
  }
  for(int c = 1; c <= nclients; ++c)
    for(int i = 0; i < nfuts; ++i)
      if(execCount[c * 8 + i] != 1) sched_fail("call %d executed %d times", c * 8 + i, (int)execCount[c * 8 + i]);
}
