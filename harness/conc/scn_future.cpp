// Scenario for property C10: client threads start functions through Future<int> objects on the shared worker pool and
// join them, under the cooperative scheduler.  The pool constants are overridden through the NSTD_VERIF hook
// (poolmax / poolcap / poolmin parameters), every atomic access, plain protocol read and pthread call is a
// scheduling point.  Futures live on the heap and are deleted right after the join / result conversion (the
// documented usage): the shim reports any pthread call on a destroyed mutex / condition variable.
//   clients=<n> futs=<futures per client> mode=<0 join then read result | 1 result conversion | 2 restart same future | 3 sequential calls after an idle period | 4 restart same future, then result conversion without join>
//   abort=<0|1> sleep=<ms virtual sleep of client 1 between start and join: lets the pool's idle clock advance>
#include "../sched/sched.h"
#include <stdio.h>
#include <stdlib.h>
#include <string.h>
#include <unistd.h>
#include <nstd/Future.hpp>

enum { MAXC = 4, MAXF = 4 };
static int nclients = 2, nfuts = 1, mode = 0, doAbort = 0, sleepMs = 0, workYield = 1;
static volatile int execCount[64];

static int work(int id)
{
  ++execCount[id];
  sched_event("\"op\":\"exec\",\"f\":%d", id);
  if(workYield) sched_point("work");
  sched_event("\"op\":\"done\",\"f\":%d", id);
  return id * 10 + 1;
}

static void client(void* arg)
{
  int c = (int)(long)arg;
  Future<int>* fut[MAXF];
  for(int i = 0; i < nfuts; ++i)
  {
    int id = c * 8 + i;
    fut[i] = new Future<int>;
    // abort=2: abort() is requested BEFORE the start (on an idle future): it must not count as an abort of this call
    if(doAbort == 2 && (id & 1)) { sched_event("\"op\":\"abort_idle\",\"f\":%d", id); fut[i]->abort(); }
    sched_event("\"op\":\"start\",\"f\":%d,\"c\":%d", id, c);
    fut[i]->start(&work, id);
    sched_event("\"op\":\"started\",\"f\":%d,\"c\":%d", id, c);
    if(doAbort == 1 && (id & 1)) { sched_event("\"op\":\"abort\",\"f\":%d", id); fut[i]->abort(); }
  }
  if(sleepMs && c == 1) usleep((useconds_t)sleepMs * 1000);
  if(mode == 2 || mode == 4)
  {
    // start the same future object again without joining first: start() must wait for the first call
    int id = c * 8, id2 = c * 8 + 4;
    sched_event("\"op\":\"start\",\"f\":%d,\"c\":%d,\"after\":%d", id2, c, id);
    fut[0]->start(&work, id2);
    sched_event("\"op\":\"started\",\"f\":%d,\"c\":%d,\"after\":%d", id2, c, id);
  }
  if(mode == 3 && c == 1)
  {
    // after the concurrent phase and an idle period (the pool may retire workers), a series of sequential calls:
    // every one of them must still find a worker
    for(int i = 0; i < nfuts; ++i)
    {
      int id = c * 8 + i;
      sched_event("\"op\":\"join\",\"f\":%d", id);
      int r = *fut[i];
      sched_event("\"op\":\"joinret\",\"f\":%d,\"r\":%d,\"fin\":%s,\"ab\":%s,\"execs\":%d", id, r,
                  fut[i]->isFinished() ? "true" : "false", fut[i]->isAborted() ? "true" : "false", (int)execCount[id]);
      delete fut[i];
      sched_event("\"op\":\"deleted\",\"f\":%d", id);
    }
    usleep(3000 * 1000);
    for(int k = 0; k < 5; ++k)
    {
      int id = 40 + k;
      Future<int>* f = new Future<int>;
      sched_event("\"op\":\"start\",\"f\":%d,\"c\":%d", id, c);
      f->start(&work, id);
      sched_event("\"op\":\"started\",\"f\":%d,\"c\":%d", id, c);
      sched_event("\"op\":\"join\",\"f\":%d", id);
      int r = *f;
      sched_event("\"op\":\"joinret\",\"f\":%d,\"r\":%d,\"fin\":%s,\"ab\":%s,\"execs\":%d", id, r,
                  f->isFinished() ? "true" : "false", f->isAborted() ? "true" : "false", (int)execCount[id]);
      delete f;
      sched_event("\"op\":\"deleted\",\"f\":%d", id);
      if(k == 1) usleep(3000 * 1000);
    }
    return;
  }
  for(int i = 0; i < nfuts; ++i)
  {
    int id = ((mode == 2 || mode == 4) && i == 0) ? c * 8 + 4 : c * 8 + i;
    sched_event("\"op\":\"join\",\"f\":%d", id);
    int r;
    if(mode == 1 || mode == 4) r = *fut[i];        // result conversion joins (mode 4: on a future object used for its second call)
    else { fut[i]->join(); r = *fut[i]; }
    sched_event("\"op\":\"joinret\",\"f\":%d,\"r\":%d,\"fin\":%s,\"ab\":%s,\"execs\":%d", id, r,
                fut[i]->isFinished() ? "true" : "false", fut[i]->isAborted() ? "true" : "false", (int)execCount[id]);
    delete fut[i];
    sched_event("\"op\":\"deleted\",\"f\":%d", id);
  }
}

extern "C" void scenario_setup(void)
{
  nclients = sched_param_int("clients", 2);
  nfuts = sched_param_int("futs", 1);
  mode = sched_param_int("mode", 0);
  doAbort = sched_param_int("abort", 0);
  sleepMs = sched_param_int("sleep", 0);
  workYield = sched_param_int("workyield", 1);
  if(nclients > MAXC) nclients = MAXC;
  if(nfuts > MAXF) nfuts = MAXF;
  sched_event("\"op\":\"setup\",\"clients\":%d,\"futs\":%d,\"mode\":%d", nclients, nfuts, mode);
  for(int c = 1; c <= nclients; ++c) sched_spawn(client, (void*)(long)c);
}

extern "C" void scenario_finish(void)
{
  for(int c = 1; c <= nclients; ++c)
    for(int i = 0; i < nfuts; ++i)
      if(execCount[c * 8 + i] != 1) sched_fail("call %d executed %d times", c * 8 + i, (int)execCount[c * 8 + i]);
}
