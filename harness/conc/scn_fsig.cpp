// Scenario for property C10 (mechanism): the FastSignal of src/Future.cpp - an atomic flag in front of a Signal, used by
// the pool for "job enqueued" and "slot dequeued" - must itself be a manual-reset event: 2-4 threads run per-thread
// programs of set / reset / wait on ONE FastSignal under the cooperative scheduler; the events are those of
// scn_prims.cpp with prim=signal, so PrimsAbs (the manual-reset-event rules of C11) judges them.  FastSignal is a private
// class of Future.cpp: this translation unit includes that file (it is NOT linked separately).
//   n=<threads> init=<0|1> p1=op,op,... ops: set reset wait  |  pwait = the pool's waiting protocol: reset, then wait
#include "../sched/sched.h"
#include <stdio.h>
#include <stdlib.h>
#include <string.h>
#define private public
#include <Future.cpp>
#undef private

typedef Future<void>::Private::FastSignal FSig;
enum { MAXT = 6, MAXOPS = 16 };
static char prog[MAXT + 1][MAXOPS][16];
static int nops[MAXT + 1];
static int nthreads = 2;
static FSig* sig = 0;

extern "C" int sched_param_str(const char* name, char* buf, int size);

static void call(int t, const char* f) { sched_event("\"op\":\"call\",\"t\":%d,\"f\":\"%s\",\"ms\":0", t, f); }
static void ret(int t, const char* f, int r) { sched_event("\"op\":\"ret\",\"t\":%d,\"f\":\"%s\",\"r\":%d", t, f, r); }

static void run_prog(void* arg)
{
  int t = (int)(long)arg;
  for(int i = 0; i < nops[t]; ++i)
  {
    const char* f = prog[t][i];
    if(!strcmp(f, "set")) { call(t, f); sig->set(); ret(t, f, 1); }
    else if(!strcmp(f, "reset")) { call(t, f); sig->reset(); ret(t, f, 1); }
    else if(!strcmp(f, "wait")) { call(t, f); int r = sig->wait(); ret(t, f, r); }
    else if(!strcmp(f, "pwait")) { call(t, "reset"); sig->reset(); ret(t, "reset", 1); call(t, "wait"); int r = sig->wait(); ret(t, "wait", r); }
    else sched_fail("scenario: unknown op %s", f);
  }
}

extern "C" void scenario_setup(void)
{
  nthreads = sched_param_int("n", 2);
  sig = new FSig;
  if(sched_param_int("init", 0)) sig->set();
  sched_event("\"op\":\"setup\",\"prim\":\"signal\",\"n\":%d,\"init\":%d", nthreads, sched_param_int("init", 0));
  for(int t = 1; t <= nthreads && t <= MAXT; ++t)
  {
    char name[8], buf[512];
    snprintf(name, sizeof(name), "p%d", t);
    buf[0] = 0;
    sched_param_str(name, buf, sizeof(buf));
    nops[t] = 0;
    for(char* tok = strtok(buf, ","); tok && nops[t] < MAXOPS; tok = strtok(0, ",")) strncpy(prog[t][nops[t]++], tok, 15);
  }
  for(int t = 1; t <= nthreads && t <= MAXT; ++t) sched_spawn(run_prog, (void*)(long)t);
}

extern "C" void scenario_finish(void) { delete sig; sig = 0; }
