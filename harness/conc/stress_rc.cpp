// Native (no scheduler, no NSTD_VERIF hook) stress of the reference counts for property C09: really parallel threads make and
// drop handles of ONE object through every copy path of RefCount::Ptr (plain copy, converting copy Ptr<Base>(Ptr<Derived>),
// assignment, converting assignment) and of String / Variant; the object must be destroyed exactly once, after the last
// handle, never while a handle still refers to it.  One summary event per run (validated by RefHandles: op "stress").
//   usage: stress_rc <trace file> <threads> <iterations> <rounds>
#include <stdio.h>
#include <stdlib.h>
#include <pthread.h>
#include <nstd/RefCount.hpp>
#include <nstd/String.hpp>
#include <nstd/Variant.hpp>

static volatile int g_destroyed = 0, g_early = 0;
static volatile int g_handlesAlive = 0;     // handles the threads (and main) still hold, counted by the harness itself
struct Base : public RefCount::Object
{
  int tag;
  Base() : tag(42) {}
  virtual ~Base() { if(g_handlesAlive > 0) g_early = 1; __sync_fetch_and_add(&g_destroyed, 1); tag = 0; }
};
struct Derived : public Base { int extra; Derived() : extra(7) {} };

struct Job { RefCount::Ptr<Derived>* src; String* s; Variant* v; long iters; int bad; };
static pthread_barrier_t g_bar;
static void* worker(void* arg)
{
  Job* j = (Job*)arg;
  pthread_barrier_wait(&g_bar);
  for(long i = 0; i < j->iters; ++i)
  {
    RefCount::Ptr<Base> a(*j->src);            // converting copy constructor
    RefCount::Ptr<Derived> b(*j->src);         // plain copy constructor
    RefCount::Ptr<Base> c;
    c = *j->src;                               // converting assignment
    RefCount::Ptr<Derived> d;
    d = b;                                     // plain assignment
    if(a->tag != 42 || c->tag != 42 || d->extra != 7) j->bad = 1;
    String t(*j->s);                           // String payload shared by all threads
    Variant w(*j->v);                          // Variant list payload shared by all threads
    if(t.length() != 26 || ((const Variant&)w).toList().size() != 3) j->bad = 1;
  }
  return 0;
}

int main(int argc, char** argv)
{
  if(argc < 5) return 2;
  FILE* out = fopen(argv[1], "w");
  int nt = atoi(argv[2]); long iters = atol(argv[3]); int rounds = atoi(argv[4]);
  if(!out || nt < 1 || nt > 16) return 2;
  fputs("{\"op\":\"reset\"}\n", out);
  for(int r = 0; r < rounds; ++r)
  {
    g_destroyed = 0; g_early = 0;
    int bad = 0;
    {
      RefCount::Ptr<Derived> root(new Derived);
      String s("abcdefghijklmnopqrstuvwxyz"); s.append(String());       // an owned, counted payload
      Variant v; v.toList().append(Variant(1)); v.toList().append(Variant(2)); v.toList().append(Variant(String("x")));
      g_handlesAlive = 1;
      pthread_t th[16]; Job jobs[16];
      pthread_barrier_init(&g_bar, 0, (unsigned)nt);
      for(int t = 0; t < nt; ++t) { jobs[t].src = &root; jobs[t].s = &s; jobs[t].v = &v; jobs[t].iters = iters; jobs[t].bad = 0; pthread_create(&th[t], 0, worker, &jobs[t]); }
      for(int t = 0; t < nt; ++t) { pthread_join(th[t], 0); bad |= jobs[t].bad; }
      pthread_barrier_destroy(&g_bar);
      if(g_destroyed != 0) g_early = 1;
      g_handlesAlive = 0;
    }                                           // root goes out of scope: the object is destroyed now
    fprintf(out, "{\"op\":\"stress\",\"round\":%d,\"threads\":%d,\"iters\":%ld,\"destroyed\":%d,\"early\":%d,\"bad\":%d}\n", r, nt, iters, (int)g_destroyed, (int)g_early, bad);
  }
  fclose(out);
  return 0;
}
