// Scenario for property C11: 2-4 threads use ONE primitive (Mutex, Semaphore, Signal, Monitor, Thread) according to
// per-thread programs given on the command line, under the cooperative scheduler (harness/sched).
//   prim=mutex|sem|signal|monitor|thread  n=<threads>  init=<semaphore initial value>
//   p1=op,op,...  p2=...      ops: lock unlock trylock | wait twait<ms> trywait signal | set reset wait twait<ms>
//                                  | mlock mwait mtwait<ms> munlock mset msetloop | start join
// Every API call logs {"op":"call",...} before and {"op":"ret",...} after; the thread holds the baton in between only
// as far as the primitive itself does not yield, so the log order is the real order.
#include "../sched/sched.h"
#include <stdio.h>
#include <stdlib.h>
#include <string.h>
#include <nstd/Mutex.hpp>
#include <nstd/Semaphore.hpp>
#include <nstd/Signal.hpp>
#include <nstd/Monitor.hpp>
#include <nstd/Thread.hpp>

enum { MAXT = 6, MAXOPS = 16 };
static char prog[MAXT + 1][MAXOPS][16];
static int nops[MAXT + 1];
static int nthreads = 2;
static char prim[16] = "mutex";
static Mutex* mutex = 0;
static Mutex g_staticMutex;                    // a Mutex with static storage duration, constructed before main() and (by link order) before the
                                               // library's own translation units are initialised (gmtx=1 uses it)
static Semaphore* sem = 0;
static Signal* sig = 0;
static Monitor* mon = 0;
static Thread* thr[MAXT + 1];
static volatile int waitersDone = 0, waitersTotal = 0;
static volatile int entered = 0;               // waiters that have taken the monitor and are about to wait (mwaite)
static volatile int returnedW = 0;             // mwaite calls that have returned
static int logicalId[64];                      // scheduler thread id -> program index

extern "C" int sched_param_str(const char* name, char* buf, int size);

static int me() { return logicalId[sched_self()]; }

static uint child_proc(void* arg)
{
  int v = (int)(long)arg;
  sched_point("child_work");
  sched_event("\"op\":\"proc_end\",\"t\":%d,\"v\":%d", v / 100, v);
  return (uint)v;
}

// member-function overload of Thread::start: the object's run() is the thread function
struct Runner
{
  int v;
  uint run() { return child_proc((void*)(long)v); }
};
static Runner runnerA[MAXT + 1], runnerB[MAXT + 1];

static void run_prog(void* arg)
{
  int t = (int)(long)arg;
  logicalId[sched_self()] = t;
  for(int i = 0; i < nops[t]; ++i)
  {
    const char* op = prog[t][i];
    long ms = 0;
    char f[16]; strcpy(f, op);
    for(char* p = f; *p; ++p) if(*p >= '0' && *p <= '9') { ms = atol(p); *p = 0; break; }
    // msetafter<k>: set number k is issued only after k waiters have taken the monitor AND the k-1 sets before it have each
    // released a waiter (so sets never coalesce): every such set has to release a waiter
    if(!strcmp(f, "msetafter")) { while(entered < (int)ms || returnedW < (int)ms - 1) sched_point("await_enter"); ms = 0; }
    // setafter<k>: Signal::set() issued only once k threads are blocked inside wait: they are current waiters of this set for certain
    if(!strcmp(f, "setafter")) { int ids[16]; while(sched_cond_blocked(ids, 16) < (int)ms) sched_point("await_blocked"); ms = 0; strcpy(f, "set"); }
    if(!strcmp(f, "waiti")) { /* logged as the wait it is */ }
    const char* lf = !strcmp(f, "waiti") ? "wait" : !strcmp(f, "tlu") ? "trylock" : !strcmp(f, "mwaite") ? "mwait" : !strcmp(f, "msetafter") ? "mset" : f;
    if(!strcmp(f, "set") && sig)
    {
      // the waiters that are blocked inside Signal::wait at this moment ("current waiters": the set has to release them)
      int ids[16]; int n = sched_cond_blocked(ids, 16); char cw[128]; size_t o = 0; cw[0] = 0;
      for(int k = 0; k < n; ++k) o += snprintf(cw + o, sizeof(cw) - o, "%s%d", k ? "," : "", logicalId[ids[k]]);
      sched_event("\"op\":\"call\",\"t\":%d,\"f\":\"%s\",\"ms\":%ld,\"cw\":[%s]", t, lf, ms, cw);
    }
    else
    sched_event("\"op\":\"call\",\"t\":%d,\"f\":\"%s\",\"ms\":%ld", t, lf, ms);
    int r = 1;
    if(!strcmp(f, "mwaite")) { ++entered; r = mon->wait(); ++returnedW; }
    if(!strcmp(f, "msetafter")) mon->set();
    if(!strcmp(f, "lock")) mutex->lock();
    else if(!strcmp(f, "unlock")) mutex->unlock();
    else if(!strcmp(f, "trylock")) r = mutex->tryLock();
    else if(!strcmp(f, "tlu"))
    {
      // try-lock and, if acquired, unlock again (keeps programs balanced); logged as the two calls it consists of
      r = mutex->tryLock();
      sched_event("\"op\":\"ret\",\"t\":%d,\"f\":\"trylock\",\"r\":%d", t, r);
      if(r)
      {
        sched_event("\"op\":\"call\",\"t\":%d,\"f\":\"unlock\",\"ms\":0", t);
        mutex->unlock();
        sched_event("\"op\":\"ret\",\"t\":%d,\"f\":\"unlock\",\"r\":1", t);
      }
      continue;
    }
    else if(!strcmp(f, "wait") && sem) r = sem->wait();
    // waiti: an untimed wait whose sem_wait is interrupted once by a signal (EINTR): it is still a wait - no failure, one token
    else if(!strcmp(f, "waiti") && sem) { sched_intr_next_sem_wait(); r = sem->wait(); }
    else if(!strcmp(f, "twait") && sem) r = sem->wait(ms);
    else if(!strcmp(f, "trywait")) r = sem->tryWait();
    else if(!strcmp(f, "signal")) sem->signal();
    else if(!strcmp(f, "set")) sig->set();
    else if(!strcmp(f, "reset")) sig->reset();
    else if(!strcmp(f, "wait") && sig) r = sig->wait();
    else if(!strcmp(f, "twait") && sig) r = sig->wait(ms);
    else if(!strcmp(f, "mlock")) mon->lock();
    else if(!strcmp(f, "mtrylock")) r = mon->tryLock();
    else if(!strcmp(f, "munlock")) mon->unlock();
    else if(!strcmp(f, "mwait")) { r = mon->wait(); }
    else if(!strcmp(f, "mtwait")) r = mon->wait(ms);
    else if(!strcmp(f, "mset")) mon->set();
    // mwaite: an untimed wait that counts itself as "has taken the monitor" first; msetafter<k>: a set() issued only after k
    // waiters have done so - so every such set has to release a waiter and all the waiters return (logged as mwait / mset)
    else if(!strcmp(f, "mwaite") || !strcmp(f, "msetafter")) { /* handled below */ }
    else if(!strcmp(f, "mdone")) { ++waitersDone; }
    else if(!strcmp(f, "msetloop"))
    {
      // keep setting until every waiter has returned (terminates under a fair schedule iff a set issued while a
      // waiter holds or waits on the monitor eventually releases a waiter)
      int sets = 0;
      while(waitersDone < waitersTotal)
      {
        sched_event("\"op\":\"call\",\"t\":%d,\"f\":\"mset\",\"ms\":0", t);
        mon->set();
        sched_event("\"op\":\"ret\",\"t\":%d,\"f\":\"mset\",\"r\":1", t);
        ++sets;
        sched_point("setloop");
      }
      r = sets;
    }
    else if(!strcmp(f, "start")) { thr[t] = new Thread; r = thr[t]->start(child_proc, (void*)(long)(t * 100 + i)); sched_event("\"op\":\"started\",\"t\":%d,\"v\":%d", t, t * 100 + i); }
    // mstart: start through the member-function overload; restart: a second start() on the same Thread object while the first
    // thread has not been joined - it must fail and must not disturb the thread that is running
    else if(!strcmp(f, "mstart")) { thr[t] = new Thread; runnerA[t].v = t * 100 + i; r = thr[t]->start(runnerA[t], &Runner::run); sched_event("\"op\":\"started\",\"t\":%d,\"v\":%d", t, t * 100 + i); }
    else if(!strcmp(f, "restart")) { runnerB[t].v = t * 100 + 50 + i; r = thr[t] ? (int)thr[t]->start(runnerB[t], &Runner::run) : 0; }
    // startf: a start() whose thread creation fails (injected EAGAIN): returns false and leaves the Thread startable;
    // startagain: start() on the same object after that - succeeds, and join() returns this function's result
    else if(!strcmp(f, "startf")) { thr[t] = new Thread; sched_fail_next_create(); r = thr[t]->start(child_proc, (void*)(long)(t * 100 + 60 + i)); }
    else if(!strcmp(f, "startagain")) { r = thr[t] ? (int)thr[t]->start(child_proc, (void*)(long)(t * 100 + i)) : 0; if(r) sched_event("\"op\":\"started\",\"t\":%d,\"v\":%d", t, t * 100 + i); }
    else if(!strcmp(f, "join")) { r = thr[t] ? (int)thr[t]->join() : -1; }
    else { sched_fail("scenario: unknown op %s", op); }
    sched_event("\"op\":\"ret\",\"t\":%d,\"f\":\"%s\",\"r\":%d", t, lf, r);
  }
}

extern "C" void scenario_setup(void)
{
  sched_param_str("prim", prim, sizeof(prim));
  nthreads = sched_param_int("n", 2);
  if(!strcmp(prim, "mutex")) mutex = sched_param_int("gmtx", 0) ? &g_staticMutex : new Mutex;
  else if(!strcmp(prim, "sem")) sem = new Semaphore((uint)sched_param_int("init", 0));
  else if(!strcmp(prim, "signal")) sig = new Signal(sched_param_int("init", 0) != 0);
  else if(!strcmp(prim, "monitor")) mon = new Monitor;
  sched_event("\"op\":\"setup\",\"prim\":\"%s\",\"n\":%d,\"init\":%d", prim, nthreads, sched_param_int("init", 0));
  for(int t = 1; t <= nthreads && t <= MAXT; ++t)
  {
    char name[8], buf[512];
    snprintf(name, sizeof(name), "p%d", t);
    buf[0] = 0;
    sched_param_str(name, buf, sizeof(buf));
    nops[t] = 0;
    for(char* tok = strtok(buf, ","); tok && nops[t] < MAXOPS; tok = strtok(0, ","))
    {
      strncpy(prog[t][nops[t]], tok, 15);
      if(!strcmp(tok, "mdone")) ++waitersTotal;
      ++nops[t];
    }
  }
  for(int t = 1; t <= nthreads && t <= MAXT; ++t) sched_spawn(run_prog, (void*)(long)t);
}

extern "C" void scenario_finish(void)
{
  // the objects are not destroyed here: destruction while daemon threads may still exist is not part of C11
}
