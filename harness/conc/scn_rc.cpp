// Scenario for property C09: threads that each own DISTINCT handles (two per thread: A and B) to payloads shared
// with the other threads' handles - String, Variant (holding a string) or RefCount::Ptr - run per-thread programs
// under the cooperative scheduler; the NSTD_VERIF hook in Atomic.hpp makes every atomic access a scheduling point.
//   kind=string|variant|ptr  n=<threads>  p1=op,op,...   ops: aeqb beqa wa wb ca cb sw ra rb da db
// Every operation logs a call event before and the handle values after it.  Payload release is observed through
// ASan (use after free / double free), the destructor of the Ptr pointee, and LeakSanitizer at the end.
#include "../sched/sched.h"
#include <stdio.h>
#include <stdlib.h>
#include <string.h>
#include <nstd/String.hpp>
#include <nstd/Variant.hpp>
#include <nstd/RefCount.hpp>

extern "C" int sched_param_str(const char* name, char* buf, int size);
extern "C" int __lsan_do_recoverable_leak_check(void);

enum { MAXT = 4, MAXOPS = 12 };
static char prog[MAXT + 1][MAXOPS][8];
static int nops[MAXT + 1];
static int nthreads = 2;
static char kind[16] = "string";
static int logicalId[64];

struct Obj : public RefCount::Object
{
  int id;
  static int destroyed[8];
  Obj(int id) : id(id) {}
  ~Obj() { ++destroyed[id]; sched_event("\"op\":\"destroyed\",\"p\":%d", id); }
};
int Obj::destroyed[8];

struct Handles
{
  String* s[2];
  Variant* v[2];
  RefCount::Ptr<Obj>* p[2];
};
static Handles H[MAXT + 1];

static void put_val(char* out, size_t size, int t, int h)
{
  // the handle's value: bytes of the string (string / variant), payload id (ptr), "null" for a deleted handle
  if(!strcmp(kind, "string"))
  {
    if(!H[t].s[h]) { snprintf(out, size, "[-1]"); return; }
    const String& s = *H[t].s[h];
    size_t n = snprintf(out, size, "[");
    const char* d = s;
    for(usize i = 0; i < s.length() && n + 8 < size; ++i) n += snprintf(out + n, size - n, i ? ",%d" : "%d", (int)(unsigned char)d[i]);
    snprintf(out + n, size - n, "]");
  }
  else if(!strcmp(kind, "variant"))
  {
    if(!H[t].v[h]) { snprintf(out, size, "[-1]"); return; }
    // nested one-element lists are written as a prefix of -2 markers followed by the bytes of the innermost value
    const Variant* cv = H[t].v[h];
    size_t n = snprintf(out, size, "[");
    int first = 1;
    for(int depth = 0; depth < 16 && cv->getType() == Variant::listType; ++depth)
    {
      n += snprintf(out + n, size - n, first ? "-2" : ",-2"); first = 0;
      if(cv->toList().isEmpty()) { cv = 0; break; }
      cv = &cv->toList().front();
    }
    String s = cv ? cv->toString() : String();
    const char* d = s;
    for(usize i = 0; i < s.length() && n + 8 < size; ++i) { n += snprintf(out + n, size - n, first ? "%d" : ",%d", (int)(unsigned char)d[i]); first = 0; }
    snprintf(out + n, size - n, "]");
  }
  else
  {
    if(!H[t].p[h]) { snprintf(out, size, "[-1]"); return; }
    RefCount::Ptr<Obj>& p = *H[t].p[h];
    snprintf(out, size, "[%d]", p ? p->id : 0);          // dereferences the pointee: ASan sees a freed one
  }
}

static void log_vals(int t, const char* f)
{
  char a[512], b[512];
  put_val(a, sizeof(a), t, 0);
  put_val(b, sizeof(b), t, 1);
  sched_event("\"op\":\"h\",\"t\":%d,\"f\":\"%s\",\"a\":%s,\"b\":%s", t, f, a, b);
}

static void run_prog(void* arg)
{
  int t = (int)(long)arg;
  logicalId[sched_self()] = t;
  char wr = (char)(64 + t);
  for(int i = 0; i < nops[t]; ++i)
  {
    const char* f = prog[t][i];
    int x = (f[1] == 'a' || !strcmp(f, "aeqb") || !strcmp(f, "aeqa")) ? 0 : 1;      // the handle the op changes (la/oa: a, lb/ob: b)
    if(!strcmp(f, "beqa")) x = 1;
    int y = 1 - x;
    sched_event("\"op\":\"c\",\"t\":%d,\"f\":\"%s\"", t, f);
    if(!strcmp(kind, "string"))
    {
      String*& X = H[t].s[x]; String*& Y = H[t].s[y];
      if(!strcmp(f, "aeqa")) { if(X) { String& self = *X; *X = self; } }
      else if(!strcmp(f, "aeqb") || !strcmp(f, "beqa")) { if(X && Y) *X = *Y; }
      else if(f[0] == 'w') { if(X) X->append(wr); }
      else if(f[0] == 'c') { if(X) X->clear(); }
      else if(f[0] == 'd') { delete X; X = 0; }
      else if(f[0] == 'r') { }
    }
    else if(!strcmp(kind, "variant"))
    {
      Variant*& X = H[t].v[x]; Variant*& Y = H[t].v[y];
      if(!strcmp(f, "aeqa")) { if(X) { Variant& self = *X; *X = self; } }
      else if(!strcmp(f, "aeqb") || !strcmp(f, "beqa")) { if(X && Y) *X = *Y; }
      else if(f[0] == 'w') { if(X) X->toString().append(wr); }
      else if(f[0] == 'c') { if(X) X->clear(); }
      else if(f[0] == 'd') { delete X; X = 0; }
      // la / lb: wrap the handle's value into a one-element list;  oa / ob: assign the handle the first element of
      // its OWN list (the element lives inside the payload that the assignment releases)
      else if(f[0] == 'l') { if(X) { List<Variant> l; l.append(*X); *X = l; } }
      else if(f[0] == 'o') { if(X && ((const Variant&)*X).getType() == Variant::listType && !((const Variant&)*X).toList().isEmpty()) *X = ((const Variant&)*X).toList().front(); }
    }
    else
    {
      RefCount::Ptr<Obj>*& X = H[t].p[x]; RefCount::Ptr<Obj>*& Y = H[t].p[y];
      if(!strcmp(f, "aeqa")) { if(X) { RefCount::Ptr<Obj>& self = *X; *X = self; } }
      else if(!strcmp(f, "aeqb") || !strcmp(f, "beqa")) { if(X && Y) *X = *Y; }
      else if(f[0] == 'c') { if(X) *X = (Obj*)0; }
      else if(!strcmp(f, "sw")) { if(H[t].p[0] && H[t].p[1]) H[t].p[0]->swap(*H[t].p[1]); }
      else if(f[0] == 'd') { delete X; X = 0; }
    }
    log_vals(t, f);
  }
  // the thread's remaining handles go away with it
  sched_event("\"op\":\"c\",\"t\":%d,\"f\":\"end\"", t);
  for(int h = 0; h < 2; ++h) { delete H[t].s[h]; H[t].s[h] = 0; delete H[t].v[h]; H[t].v[h] = 0; delete H[t].p[h]; H[t].p[h] = 0; }
  sched_event("\"op\":\"h\",\"t\":%d,\"f\":\"end\",\"a\":[-1],\"b\":[-1]", t);
}

extern "C" void scenario_setup(void)
{
  sched_param_str("kind", kind, sizeof(kind));
  nthreads = sched_param_int("n", 2);
  sched_event("\"op\":\"setup\",\"kind\":\"%s\",\"n\":%d", kind, nthreads);
  {
    // two master payloads; every thread gets its own handles A -> payload 1, B -> payload 2; the masters go away
    String m1("p"); m1.append('1');            // appended so that the payload is an owned, shareable block
    String m2("q"); m2.append('2');
    Variant v1(m1), v2(m2);
    RefCount::Ptr<Obj> o1, o2;
    if(!strcmp(kind, "ptr")) { o1 = new Obj(1); o2 = new Obj(2); }
    for(int t = 1; t <= nthreads && t <= MAXT; ++t)
    {
      if(!strcmp(kind, "string")) { H[t].s[0] = new String(m1); H[t].s[1] = new String(m2); }
      else if(!strcmp(kind, "variant")) { H[t].v[0] = new Variant(v1); H[t].v[1] = new Variant(v2); }
      else { H[t].p[0] = new RefCount::Ptr<Obj>(o1); H[t].p[1] = new RefCount::Ptr<Obj>(o2); }
    }
  }
  for(int t = 1; t <= nthreads && t <= MAXT; ++t)
  {
    char name[8], buf[256];
    snprintf(name, sizeof(name), "p%d", t);
    buf[0] = 0;
    sched_param_str(name, buf, sizeof(buf));
    nops[t] = 0;
    for(char* tok = strtok(buf, ","); tok && nops[t] < MAXOPS; tok = strtok(0, ","))
      strncpy(prog[t][nops[t]++], tok, 7);
  }
  for(int t = 1; t <= nthreads && t <= MAXT; ++t) sched_spawn(run_prog, (void*)(long)t);
}

extern "C" void scenario_finish(void)
{
  // every handle is gone: every payload must have been released - exactly once (pointee destructor count), and
  // nothing may be left allocated (LeakSanitizer)
  if(!strcmp(kind, "ptr"))
    for(int p = 1; p <= 2; ++p)
      if(Obj::destroyed[p] != 1) sched_fail("payload %d destroyed %d times after its last handle has gone", p, Obj::destroyed[p]);
  if(__lsan_do_recoverable_leak_check()) sched_fail("payload leaked (LeakSanitizer)");
}
