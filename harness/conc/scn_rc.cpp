// Scenario for property C09: threads that each own DISTINCT handles (two per thread: A and B) to payloads shared
// with the other threads' handles - String, Variant (holding a string) or RefCount::Ptr - run per-thread programs
// under the cooperative scheduler; the NSTD_VERIF hook in Atomic.hpp makes every atomic access a scheduling point.
//   kind=string|variant|ptr|varr|vlist|vmap|xtext|xelem  n=<threads>  p1=op,op,...
//   xtext / xelem: Xml::Variant handles sharing a text / an element payload (wa wb: new text = old text + a byte /
//   append a byte to the element's type through the mutable accessor; ga gb: mutable element accessor alone)
//   ops: aeqb beqa aeqa wa wb ca cb sw da db (la lb oa ob: variant) ta tb (trim) za zb (drop the last byte) ua ub (upper
//   case) ga gb (mutable accessor without a modification).  varr / vlist / vmap: the handles are Variants sharing an
//   Array / List / HashMap payload with one element; wa / wb append an element through the mutable accessor.
// Every operation logs a call event before and the handle values after it.  Payload release is observed through
// ASan (use after free / double free), the destructor of the Ptr pointee, and LeakSanitizer at the end.
#include "../sched/sched.h"
#include <stdio.h>
#include <stdlib.h>
#include <string.h>
#include <nstd/String.hpp>
#include <nstd/Variant.hpp>
#include <nstd/RefCount.hpp>
#include <nstd/Document/Xml.hpp>

extern "C" int sched_param_str(const char* name, char* buf, int size);
extern "C" int __lsan_do_recoverable_leak_check(void);

enum { MAXT = 4, MAXOPS = 12 };
static char prog[MAXT + 1][MAXOPS][8];
static int nops[MAXT + 1];
static int nthreads = 2;
static char kind[16] = "string";
static int logicalId[64];

struct Obj : public RefCount::Object
{
  int id;
  RefCount::Ptr<Obj> next;                    // payloads 1 and 2 hold a handle to a successor (3 and 4): na / nb walk it
  static int destroyed[8];
  Obj(int id) : id(id) {}
  ~Obj() { ++destroyed[id]; sched_event("\"op\":\"destroyed\",\"p\":%d", id); }
};
int Obj::destroyed[8];

struct Handles
{
  String* s[2];
  Variant* v[2];
  RefCount::Ptr<Obj>* p[2];
  Xml::Variant* x[2];
};
static Handles H[MAXT + 1];

static void put_val(char* out, size_t size, int t, int h)
{
  // the handle's value: bytes of the string (string / variant), payload id (ptr), "null" for a deleted handle
  if(!strcmp(kind, "string"))
  {
    if(!H[t].s[h]) { snprintf(out, size, "[-1]"); return; }
    const String& s = *H[t].s[h];
    size_t n = snprintf(out, size, "[");
    const char* d = s;
    for(usize i = 0; i < s.length() && n + 8 < size; ++i) n += snprintf(out + n, size - n, i ? ",%d" : "%d", (int)(unsigned char)d[i]);
    snprintf(out + n, size - n, "]");
  }
  else if(kind[0] == 'x')
  {
    // Xml::Variant: text -> its bytes; element -> marker -6 followed by the bytes of its type; null -> nothing
    if(!H[t].x[h]) { snprintf(out, size, "[-1]"); return; }
    const Xml::Variant* cv = H[t].x[h];
    size_t n = snprintf(out, size, "[");
    int first = 1;
    String es;
    if(cv->isElement()) { n += snprintf(out + n, size - n, "-6"); first = 0; es = cv->toElement().type; }
    else es = cv->toString();
    const char* d = es;
    for(usize k = 0; k < es.length() && n + 8 < size; ++k) { n += snprintf(out + n, size - n, first ? "%d" : ",%d", (int)(unsigned char)d[k]); first = 0; }
    snprintf(out + n, size - n, "]");
  }
  else if(kind[0] == 'v' && strcmp(kind, "variant"))
  {
    // container kinds: marker (-3 array, -4 list, -5 map) followed by the bytes of the elements' string values in
    // iteration order; a Variant that is no container any more (cleared): the bytes of its string value
    if(!H[t].v[h]) { snprintf(out, size, "[-1]"); return; }
    const Variant* cv = H[t].v[h];
    size_t n = snprintf(out, size, "[");
    int first = 1;
    #define PUT_ELEM(e) { String es = ((const Variant&)(e)).toString();   /* const: the observer must not detach an element of a shared container */ const char* d = es; for(usize k = 0; k < es.length() && n + 8 < size; ++k) { n += snprintf(out + n, size - n, first ? "%d" : ",%d", (int)(unsigned char)d[k]); first = 0; } }
    if(cv->getType() == Variant::arrayType)
    {
      n += snprintf(out + n, size - n, "-3"); first = 0;
      const Array<Variant>& a = cv->toArray();
      for(usize i = 0; i < a.size(); ++i) PUT_ELEM(a[i]);
    }
    else if(cv->getType() == Variant::listType)
    {
      n += snprintf(out + n, size - n, "-4"); first = 0;
      const List<Variant>& l = cv->toList();
      for(List<Variant>::Iterator i = l.begin(), end = l.end(); i != end; ++i) PUT_ELEM(*i);
    }
    else if(cv->getType() == Variant::mapType)
    {
      n += snprintf(out + n, size - n, "-5"); first = 0;
      const HashMap<String, Variant>& m = cv->toMap();
      for(HashMap<String, Variant>::Iterator i = m.begin(), end = m.end(); i != end; ++i) PUT_ELEM(*i);
    }
    else PUT_ELEM(*cv);
    snprintf(out + n, size - n, "]");
  }
  else if(!strcmp(kind, "variant"))
  {
    if(!H[t].v[h]) { snprintf(out, size, "[-1]"); return; }
    // nested one-element lists are written as a prefix of -2 markers followed by the bytes of the innermost value
    const Variant* cv = H[t].v[h];
    size_t n = snprintf(out, size, "[");
    int first = 1;
    for(int depth = 0; depth < 16 && cv->getType() == Variant::listType; ++depth)
    {
      n += snprintf(out + n, size - n, first ? "-2" : ",-2"); first = 0;
      if(cv->toList().isEmpty()) { cv = 0; break; }
      cv = &cv->toList().front();
    }
    String s = cv ? cv->toString() : String();
    const char* d = s;
    for(usize i = 0; i < s.length() && n + 8 < size; ++i) { n += snprintf(out + n, size - n, first ? "%d" : ",%d", (int)(unsigned char)d[i]); first = 0; }
    snprintf(out + n, size - n, "]");
  }
  else
  {
    if(!H[t].p[h]) { snprintf(out, size, "[-1]"); return; }
    RefCount::Ptr<Obj>& p = *H[t].p[h];
    snprintf(out, size, "[%d]", p ? p->id : 0);          // dereferences the pointee: ASan sees a freed one
  }
}

static void log_vals(int t, const char* f)
{
  char a[512], b[512];
  put_val(a, sizeof(a), t, 0);
  put_val(b, sizeof(b), t, 1);
  sched_event("\"op\":\"h\",\"t\":%d,\"f\":\"%s\",\"a\":%s,\"b\":%s", t, f, a, b);
}

static void run_prog(void* arg)
{
  int t = (int)(long)arg;
  logicalId[sched_self()] = t;
  char wr = (char)(64 + t);
  for(int i = 0; i < nops[t]; ++i)
  {
    const char* f = prog[t][i];
    int x = (f[1] == 'a' || !strcmp(f, "aeqb") || !strcmp(f, "aeqa")) ? 0 : 1;      // the handle the op changes (la/oa: a, lb/ob: b)
    if(!strcmp(f, "beqa")) x = 1;
    int y = 1 - x;
    sched_event("\"op\":\"c\",\"t\":%d,\"f\":\"%s\"", t, f);
    if(!strcmp(kind, "string"))
    {
      String*& X = H[t].s[x]; String*& Y = H[t].s[y];
      if(!strcmp(f, "aeqa")) { if(X) { String& self = *X; *X = self; } }
      else if(!strcmp(f, "aeqb") || !strcmp(f, "beqa")) { if(X && Y) *X = *Y; }
      else if(f[0] == 'w') { if(X) X->append(wr); }
      else if(f[0] == 'c') { if(X) X->clear(); }
      else if(f[0] == 'd') { delete X; X = 0; }
      else if(f[0] == 't') { if(X) X->trim(); }
      else if(f[0] == 'z') { if(X && X->length()) X->resize(X->length() - 1); }
      else if(f[0] == 'u') { if(X) X->toUpperCase(); }
      else if(f[0] == 'g') { if(X) { char* m = *X; (void)m; } }      // mutable C-string access: detaches, changes nothing
    }
    else if(kind[0] == 'x')
    {
      Xml::Variant*& X = H[t].x[x]; Xml::Variant*& Y = H[t].x[y];
      if(!strcmp(f, "aeqa")) { if(X) { Xml::Variant& self = *X; *X = self; } }
      else if(!strcmp(f, "aeqb") || !strcmp(f, "beqa")) { if(X && Y) *X = *Y; }
      else if(f[0] == 'c') { if(X) X->clear(); }
      else if(f[0] == 'd') { delete X; X = 0; }
      else if(f[0] == 'w' && !strcmp(kind, "xtext")) { if(X) { String nt = ((const Xml::Variant*)X)->toString(); nt.append(wr); *X = nt; } }
      else if(f[0] == 'w') { if(X) X->toElement().type.append(wr); }
      else if(f[0] == 'g' && !strcmp(kind, "xelem")) { if(X) X->toElement(); }
    }
    else if(kind[0] == 'v' && strcmp(kind, "variant"))
    {
      Variant*& X = H[t].v[x]; Variant*& Y = H[t].v[y];
      char es[2] = { wr, 0 };
      if(!strcmp(f, "aeqa")) { if(X) { Variant& self = *X; *X = self; } }
      else if(!strcmp(f, "aeqb") || !strcmp(f, "beqa")) { if(X && Y) *X = *Y; }
      else if(f[0] == 'c') { if(X) X->clear(); }
      else if(f[0] == 'd') { delete X; X = 0; }
      else if(f[0] == 'w' || f[0] == 'g')
      {
        // the mutable accessor detaches from a shared payload (and turns a cleared Variant into an empty container)
        if(X && !strcmp(kind, "varr")) { Array<Variant>& a = X->toArray(); if(f[0] == 'w') a.append(Variant(String(es, 1))); }
        else if(X && !strcmp(kind, "vlist")) { List<Variant>& l = X->toList(); if(f[0] == 'w') l.append(Variant(String(es, 1))); }
        else if(X) { HashMap<String, Variant>& m = X->toMap(); if(f[0] == 'w') m.append(String(es, 1), Variant(String(es, 1))); }
      }
    }
    else if(!strcmp(kind, "variant"))
    {
      Variant*& X = H[t].v[x]; Variant*& Y = H[t].v[y];
      if(!strcmp(f, "aeqa")) { if(X) { Variant& self = *X; *X = self; } }
      else if(!strcmp(f, "aeqb") || !strcmp(f, "beqa")) { if(X && Y) *X = *Y; }
      else if(f[0] == 'w') { if(X) X->toString().append(wr); }
      else if(f[0] == 'c') { if(X) X->clear(); }
      else if(f[0] == 'd') { delete X; X = 0; }
      else if(f[0] == 't') { if(X) X->toString().trim(); }
      else if(f[0] == 'z') { if(X) { String& str = X->toString(); if(str.length()) str.resize(str.length() - 1); } }
      else if(f[0] == 'u') { if(X) X->toString().toUpperCase(); }
      else if(f[0] == 'g') { if(X) X->toString(); }
      // la / lb: wrap the handle's value into a one-element list;  oa / ob: assign the handle the first element of
      // its OWN list (the element lives inside the payload that the assignment releases)
      else if(f[0] == 'l') { if(X) { List<Variant> l; l.append(*X); *X = l; } }
      else if(f[0] == 'o') { if(X && ((const Variant&)*X).getType() == Variant::listType && !((const Variant&)*X).toList().isEmpty()) *X = ((const Variant&)*X).toList().front(); }
    }
    else
    {
      RefCount::Ptr<Obj>*& X = H[t].p[x]; RefCount::Ptr<Obj>*& Y = H[t].p[y];
      if(!strcmp(f, "aeqa")) { if(X) { RefCount::Ptr<Obj>& self = *X; *X = self; } }
      else if(!strcmp(f, "aeqb") || !strcmp(f, "beqa")) { if(X && Y) *X = *Y; }
      else if(f[0] == 'c') { if(X) *X = (Obj*)0; }
      // na / nb: p = p->next - the source handle is a member of the object the assignment may release
      else if(f[0] == 'n') { if(X && *X) *X = (*X)->next; }
      else if(!strcmp(f, "sw")) { if(H[t].p[0] && H[t].p[1]) H[t].p[0]->swap(*H[t].p[1]); }
      else if(f[0] == 'd') { delete X; X = 0; }
    }
    log_vals(t, f);
  }
  // the thread's remaining handles go away with it
  sched_event("\"op\":\"c\",\"t\":%d,\"f\":\"end\"", t);
  for(int h = 0; h < 2; ++h) { delete H[t].s[h]; H[t].s[h] = 0; delete H[t].v[h]; H[t].v[h] = 0; delete H[t].p[h]; H[t].p[h] = 0; delete H[t].x[h]; H[t].x[h] = 0; }
  sched_event("\"op\":\"h\",\"t\":%d,\"f\":\"end\",\"a\":[-1],\"b\":[-1]", t);
}

extern "C" void scenario_setup(void)
{
  sched_param_str("kind", kind, sizeof(kind));
  nthreads = sched_param_int("n", 2);
  sched_event("\"op\":\"setup\",\"kind\":\"%s\",\"n\":%d", kind, nthreads);
  {
    // two master payloads; every thread gets its own handles A -> payload 1, B -> payload 2; the masters go away
    String m1("p1"); m1.append(' ');           // appended so that the payload is an owned, shareable block;
    String m2("q2"); m2.append(' ');           // the trailing blank gives trim() something to do
    Variant v1(m1), v2(m2);
    if(kind[0] == 'v' && strcmp(kind, "variant"))
    {
      String e1("p"), e2("q");
      if(!strcmp(kind, "varr")) { Array<Variant> a1, a2; a1.append(Variant(e1)); a2.append(Variant(e2)); v1 = a1; v2 = a2; }
      else if(!strcmp(kind, "vlist")) { List<Variant> l1, l2; l1.append(Variant(e1)); l2.append(Variant(e2)); v1 = l1; v2 = l2; }
      else { HashMap<String, Variant> h1, h2; h1.append(e1, Variant(e1)); h2.append(e2, Variant(e2)); v1 = h1; v2 = h2; }
    }
    RefCount::Ptr<Obj> o1, o2;
    if(!strcmp(kind, "ptr")) { o1 = new Obj(1); o2 = new Obj(2); o1->next = new Obj(3); o2->next = new Obj(4); }
    Xml::Variant x1(m1), x2(m2);
    if(!strcmp(kind, "xelem")) { Xml::Element e1, e2; e1.type = String("p"); e2.type = String("q"); e1.content.append(Xml::Variant(m1)); e2.content.append(Xml::Variant(m2)); x1 = Xml::Variant(e1); x2 = Xml::Variant(e2); }
    for(int t = 1; t <= nthreads && t <= MAXT; ++t)
    {
      if(!strcmp(kind, "string")) { H[t].s[0] = new String(m1); H[t].s[1] = new String(m2); }
      else if(kind[0] == 'v') { H[t].v[0] = new Variant(v1); H[t].v[1] = new Variant(v2); }
      else if(kind[0] == 'x') { H[t].x[0] = new Xml::Variant(x1); H[t].x[1] = new Xml::Variant(x2); }
      else { H[t].p[0] = new RefCount::Ptr<Obj>(o1); H[t].p[1] = new RefCount::Ptr<Obj>(o2); }
    }
  }
  for(int t = 1; t <= nthreads && t <= MAXT; ++t)
  {
    char name[8], buf[256];
    snprintf(name, sizeof(name), "p%d", t);
    buf[0] = 0;
    sched_param_str(name, buf, sizeof(buf));
    nops[t] = 0;
    for(char* tok = strtok(buf, ","); tok && nops[t] < MAXOPS; tok = strtok(0, ","))
      strncpy(prog[t][nops[t]++], tok, 7);
  }
  for(int t = 1; t <= nthreads && t <= MAXT; ++t) sched_spawn(run_prog, (void*)(long)t);
}

extern "C" void scenario_finish(void)
{
  // every handle is gone: every payload must have been released - exactly once (pointee destructor count), and
  // nothing may be left allocated (LeakSanitizer)
  if(!strcmp(kind, "ptr"))
    for(int p = 1; p <= 4; ++p)
      if(Obj::destroyed[p] != 1) sched_fail("payload %d destroyed %d times after its last handle has gone", p, Obj::destroyed[p]);
  if(__lsan_do_recoverable_leak_check()) sched_fail("payload leaked (LeakSanitizer)");
}
