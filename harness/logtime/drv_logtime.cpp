// Driver for extra X03: nstd::Log (line formatting, level filter, stdout/stderr routing) and nstd::Time (utc calendar
// decomposition, toTimestamp, toString).  Traces are judged by spec/text/LogLineTrace.tla and CalendarTrace.tla.
//
// Log writes with fputs to stdout / stderr.  Around every Log call file descriptors 1 and 2 are redirected (dup2) into two
// capture files next to the trace file (<trace>.cap1 / <trace>.cap2), stdio is flushed, the descriptors are restored and
// the captured bytes are logged.  Sanitizer reports keep going to the original stderr (__sanitizer_set_report_fd).
// The process runs with TZ=UTC0, so that the local time Log uses for its time placeholder is the utc calendar time.
//
//   reset                                  Log back to its defaults (the first reset of the process leaves the real defaults
//                                          untouched, so that they are observed once); day cursor = 1970-01-01
//   setformat x<fmt> x<tfmt>               Log::setFormat
//   setlevel <n>                           Log::setLevel
//   log <level> <api> x<mfmt> x<s1> <d> x<s2>
//                                          api 0: Log::logf(level, mfmt, s1, d, s2); api 1 (level 10/20/30/40 only):
//                                          debugf/infof/warningf/errorf(mfmt, s1, d, s2); api 2: logf called on a second
//                                          thread (process id and thread id differ there).  mfmt uses at most the conversions
//                                          %s %d %s in this order.  Logged: out / err bytes, clock before / after, pid, tid
//   next <sod> <ms> | prev <sod> <ms>      move the day cursor, decompose Time((cursor * 86400 + sod) * 1000 + ms, true)
//   seek <day>                             day cursor = day (|day| < 2^31)
//   time <q> <r> <sod> <ms>                decompose Time(((q * 146097 + r) * 86400 + sod) * 1000 + ms, true), toTimestamp()
//   mk <y> <m> <d> <H> <M> <S> <wd> <yd>   a utc Time with these fields, toTimestamp()
//   str <q> <r> <sod> <ms> x<fmt>          Time::toString(t, fmt, true) and Time(t, true).toString(fmt)
#include "drv.h"
#include <fcntl.h>
#include <time.h>
#include <sys/stat.h>
#include <sys/syscall.h>
#include <pthread.h>
#include <nstd/Log.hpp>
#include <nstd/Time.hpp>
#include <nstd/String.hpp>

extern "C" void __sanitizer_set_report_fd(void* fd);

static int g_cap1 = -1, g_cap2 = -1, g_saved1 = -1, g_saved2 = -1;
static bool g_first_reset = true;
static long long g_cursor = 0;          // day number of the walk
static const long long CYCLE = 146097;

void drv_init(int, char** argv)
{
  setenv("TZ", "UTC0", 1);
  tzset();
  char path[4096];
  snprintf(path, sizeof(path), "%s.cap1", argv[2]);
  g_cap1 = open(path, O_RDWR | O_CREAT | O_TRUNC, 0600);
  unlink(path);                       // scratch: the open descriptor is all that is needed
  snprintf(path, sizeof(path), "%s.cap2", argv[2]);
  g_cap2 = open(path, O_RDWR | O_CREAT | O_TRUNC, 0600);
  unlink(path);
  g_saved1 = dup(1);
  g_saved2 = dup(2);
  if(g_cap1 < 0 || g_cap2 < 0 || g_saved1 < 0 || g_saved2 < 0) { fprintf(stderr, "DRIVER-ERROR: cannot set up capture files\n"); exit(3); }
  __sanitizer_set_report_fd((void*)(intptr_t)g_saved2);
}

void drv_fini()
{
  close(g_cap1); close(g_cap2);
}

void drv_reset()
{
  if(!g_first_reset)
  {
    Log::setFormat(String("[%t] %L: %m"), String("%H:%M:%S"));
    Log::setLevel(Log::info);
  }
  g_first_reset = false;
  g_cursor = 0;
}

static void capture_begin()
{
  fflush(stdout); fflush(stderr);
  if(ftruncate(g_cap1, 0) != 0 || ftruncate(g_cap2, 0) != 0) { fprintf(stderr, "DRIVER-ERROR: ftruncate\n"); exit(3); }
  lseek(g_cap1, 0, SEEK_SET); lseek(g_cap2, 0, SEEK_SET);
  dup2(g_cap1, 1); dup2(g_cap2, 2);
}
static void capture_end()
{
  fflush(stdout); fflush(stderr);
  dup2(g_saved1, 1); dup2(g_saved2, 2);
}
static void j_captured(const char* key, int fd)
{
  struct stat sb;
  if(fstat(fd, &sb) != 0) { fprintf(stderr, "DRIVER-ERROR: fstat\n"); exit(3); }
  long n = (long)sb.st_size;
  unsigned char* buf = (unsigned char*)malloc(n ? n : 1);
  long got = n ? (long)pread(fd, buf, n, 0) : 0;
  if(got != n) { fprintf(stderr, "DRIVER-ERROR: pread\n"); exit(3); }
  j_bytes(key, buf, n);
  free(buf);
}

static long long fdiv(long long a, long long b) { long long q = a / b; return (a % b != 0 && ((a < 0) != (b < 0))) ? q - 1 : q; }
static long long fmod_(long long a, long long b) { return a - fdiv(a, b) * b; }

static long long stamp(long long q, long long r, long long sod, long long ms)
{
  __int128 t = (((__int128)q * CYCLE + r) * 86400 + sod) * 1000 + ms;
  if(t > (__int128)INT64_MAX || t < (__int128)INT64_MIN) { fprintf(stderr, "DRIVER-ERROR: timestamp out of range at line %ld\n", g_lineno); exit(3); }
  return (long long)t;
}
static void j_stamp(long long t)     // floor decomposition
{
  long long ms = fmod_(t, 1000), s = fdiv(t, 1000);
  long long sod = fmod_(s, 86400), day = fdiv(s, 86400);
  j_int("tq", fdiv(day, CYCLE)); j_int("tr", fmod_(day, CYCLE)); j_int("tsod", sod); j_int("tms", ms);
}
static void decompose(const char* op, long long q, long long r, long long sod, long long ms)
{
  long long t = stamp(q, r, sod, ms);
  Time tm((int64)t, true);
  int64 back = tm.toTimestamp();
  Time copy(tm);
  j_begin(op);
  j_int("q", q); j_int("r", r); j_int("sod", sod); j_int("ms", ms);
  j_int("year", tm.year); j_int("month", tm.month); j_int("day", tm.day); j_int("hour", tm.hour); j_int("min", tm.min);
  j_int("sec", tm.sec); j_int("wday", tm.wday); j_int("yday", tm.yday); j_bool("utc", tm.utc && copy == tm && !(copy != tm));
  j_bool("dst", tm.dst);
  j_stamp((long long)back);
  j_end();
}

struct LogCall { long level; const char* mf; const char* s1; long d; const char* s2; long long tid; };
static void* log_on_thread(void* p)
{
  LogCall* c = (LogCall*)p;
  c->tid = (long long)syscall(SYS_gettid);
  Log::logf((int)c->level, c->mf, c->s1, (int)c->d, c->s2);
  return 0;
}

void drv_apply(const char* op)
{
  if(strcmp(op, "setformat") == 0)
  {
    int n1, n2;
    unsigned char* f = tok_bytes(&n1, 0);
    unsigned char* tf = tok_bytes(&n2, 0);
    Log::setFormat(String((const char*)f, (usize)n1), String((const char*)tf, (usize)n2));
    j_begin(op); j_bytes("fmt", f, n1); j_bytes("tfmt", tf, n2); j_end();
    free(f); free(tf);
  }
  else if(strcmp(op, "setlevel") == 0)
  {
    long n = tok_int();
    Log::setLevel((int)n);
    j_begin(op); j_int("level", n); j_end();
  }
  else if(strcmp(op, "log") == 0)
  {
    long level = tok_int(), api = tok_int();
    int nf, n1, n2;
    unsigned char* mf = tok_bytes(&nf, 1);
    unsigned char* s1 = tok_bytes(&n1, 1);
    long d = tok_int();
    unsigned char* s2 = tok_bytes(&n2, 1);
    long long tid = (long long)syscall(SYS_gettid);
    capture_begin();
    time_t t0 = time(0);
    if(api == 2)
    {
      LogCall c = { level, (const char*)mf, (const char*)s1, d, (const char*)s2, 0 };
      pthread_t th;
      if(pthread_create(&th, 0, log_on_thread, &c) != 0) { capture_end(); fprintf(stderr, "DRIVER-ERROR: pthread_create\n"); exit(3); }
      pthread_join(th, 0);
      tid = c.tid;
    }
    else if(api == 1 && level == Log::debug) Log::debugf((const char*)mf, (const char*)s1, (int)d, (const char*)s2);
    else if(api == 1 && level == Log::info) Log::infof((const char*)mf, (const char*)s1, (int)d, (const char*)s2);
    else if(api == 1 && level == Log::warning) Log::warningf((const char*)mf, (const char*)s1, (int)d, (const char*)s2);
    else if(api == 1 && level == Log::error) Log::errorf((const char*)mf, (const char*)s1, (int)d, (const char*)s2);
    else Log::logf((int)level, (const char*)mf, (const char*)s1, (int)d, (const char*)s2);
    time_t t1 = time(0);
    capture_end();
    j_begin(op); j_int("level", level); j_int("api", api); j_bytes("mfmt", mf, nf);
    j_key("args"); j_raw("[");
    { fputc('[', g_out); for(int i = 0; i < n1; ++i) fprintf(g_out, i ? ",%d" : "%d", (int)s1[i]); fputc(']', g_out); }
    fprintf(g_out, ",%ld,", d);
    { fputc('[', g_out); for(int i = 0; i < n2; ++i) fprintf(g_out, i ? ",%d" : "%d", (int)s2[i]); fputc(']', g_out); }
    j_raw("]");
    j_captured("out", g_cap1); j_captured("err", g_cap2);
    j_int("d0", (long long)t0 / 86400); j_int("s0", (long long)t0 % 86400);
    j_int("d1", (long long)t1 / 86400); j_int("s1", (long long)t1 % 86400);
    j_int("pid", (long long)getpid()); j_int("tid", tid);
    j_end();
    free(mf); free(s1); free(s2);
  }
  else if(strcmp(op, "next") == 0 || strcmp(op, "prev") == 0)
  {
    long long sod = tok_ll(), ms = tok_ll();
    g_cursor += op[0] == 'n' ? 1 : -1;
    decompose(op, fdiv(g_cursor, CYCLE), fmod_(g_cursor, CYCLE), sod, ms);
  }
  else if(strcmp(op, "seek") == 0)
  {
    g_cursor = tok_ll();
    j_begin(op); j_int("n", g_cursor); j_end();
  }
  else if(strcmp(op, "time") == 0)
  {
    long long q = tok_ll(), r = tok_ll(), sod = tok_ll(), ms = tok_ll();
    decompose(op, q, r, sod, ms);
  }
  else if(strcmp(op, "mk") == 0)
  {
    long y = tok_int(), m = tok_int(), d = tok_int(), H = tok_int(), M = tok_int(), S = tok_int(), wd = tok_int(), yd = tok_int();
    Time tm((int64)0, true);
    tm.year = (int)y; tm.month = (int)m; tm.day = (int)d; tm.hour = (int)H; tm.min = (int)M; tm.sec = (int)S; tm.wday = (int)wd; tm.yday = (int)yd;
    int64 back = tm.toTimestamp();
    j_begin(op); j_int("y", y); j_int("m", m); j_int("d", d); j_int("H", H); j_int("M", M); j_int("S", S); j_int("wd", wd); j_int("yd", yd);
    j_stamp((long long)back);
    j_end();
  }
  else if(strcmp(op, "str") == 0)
  {
    long long q = tok_ll(), r = tok_ll(), sod = tok_ll(), ms = tok_ll();
    int nf;
    unsigned char* f = tok_bytes(&nf, 1);
    long long t = stamp(q, r, sod, ms);
    String text = Time::toString((int64)t, (const char*)f, true);
    Time tm((int64)t, true);
    String mtext = tm.toString((const char*)f);
    j_begin(op); j_int("q", q); j_int("r", r); j_int("sod", sod); j_int("ms", ms); j_bytes("fmt", f, nf);
    j_bytes("text", (const unsigned char*)(const char*)text, (long)text.length());
    j_bytes("mtext", (const unsigned char*)(const char*)mtext, (long)mtext.length());
    j_end();
    free(f);
  }
  else
  {
    fprintf(stderr, "DRIVER-ERROR: unknown op %s at line %ld\n", op, g_lineno);
    exit(3);
  }
}
