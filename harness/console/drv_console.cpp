// Driver for the extra X05: Console::Prompt (POSIX branch of src/Console.cpp) behind a pseudo-terminal.
//
// Seam: a pty pair.  The driver process is the TERMINAL: it owns the master side, feeds key bytes, answers the cursor
// position query (ESC [ 6 n  ->  ESC [ row ; col R) and interprets everything the prompt writes with a small VT100
// screen emulator that supports exactly the sequences Console.cpp emits (anything else: DRIVER-ERROR).
// A forked CHILD is the application: new session, the slave side is its controlling terminal and its stdin / stdout /
// stderr; it constructs the real Console::Prompt and calls getLine when told to through a command pipe.
//
// Synchronisation without timing: `read' and `select' are defined in this executable (they take precedence over libc,
// same technique as harness/poll and harness/server).  In the child, whenever Console.cpp is about to BLOCK waiting for
// terminal input (read(0) / select with fd 0, nothing readable) the shim first writes a private marker
//       ESC ] M I <bytes consumed from the terminal so far> BEL
// into the terminal's output stream.  The terminal (parent) knows how many bytes it has sent (keys + cursor reports):
// when the marker's count equals that number the prompt has consumed every byte, and - the stream being ordered -
// everything it wrote before going to sleep has been received.  When getLine returns the child writes
//       ESC ] M R <consumed> ; <hex of the returned String> BEL
// (O = Prompt constructed, C = Prompt destroyed + "terminal mode restored?").  The markers never reach the screen model.
//
// Ops:   open <width> <startcol> <querywidth> <utf8> [<bottom>]
//                                                     create pty (window width as given; querywidth=1: TIOCGWINSZ
//                                                     reports 0 columns, the prompt must ask the terminal), put
//                                                     <startcol> characters of earlier output on the cursor row
//                                                     (bottom=1: that is the last row of the screen, which then
//                                                     scrolls), fork the application (LANG=C.UTF-8 / C), construct
//                                                     the Prompt
//        line x<prompt>                               the application calls getLine(prompt)
//        key x<bytes> | junk x<bytes>                 the terminal sends the bytes (one write); junk = same, but the
//                                                     screen emulator stops being strict until the next reset
//                                                     (the input is not well-formed: what the prompt displays then is
//                                                     not judged and may contain anything)
//        finish                                       the terminal sends enter until getLine returns (at most 6 times)
//        close                                        the application destroys the Prompt and exits (leak check);
//                                                     line / close while getLine is still running: the application is
//                                                     killed and the rest of the execution skipped ("abandon")
// Every event logs the screen AFTER the prompt went back to sleep (or returned):
//   text = the cells from the prompt's first row on, rows joined, trailing blanks stripped (code points)
//   cur  = cursor as a linear index from the prompt's first cell;  pre = 1 iff everything above the prompt's row is intact
//   st   = 1 iff getLine has returned, ret = bytes of the returned String, left = bytes sent but not yet consumed
#include "drv.h"
#include <dlfcn.h>
#include <errno.h>
#include <fcntl.h>
#include <poll.h>
#include <pty.h>
#include <termios.h>
#include <sys/ioctl.h>
#include <sys/prctl.h>
#include <sys/select.h>
#include <sys/wait.h>
#include <nstd/Console.hpp>

extern "C" void __sanitizer_set_report_fd(void*);

// ------------------------------------------------------------------------------------------------- child side
static int g_child = 0;          // 1 in the forked application process
static int g_tty = -1;           // child: private descriptor of the slave for the markers
static int g_err = 2;            // child: the driver's real stderr
static long g_consumed = 0;      // child: bytes read from fd 0

typedef ssize_t (*read_fn)(int, void*, size_t);
typedef int (*select_fn)(int, fd_set*, fd_set*, fd_set*, struct timeval*);
static read_fn real_read = 0;
static select_fn real_select = 0;

static void marker(char type, const char* payload)
{
  char buf[1 << 14];
  int n = snprintf(buf, sizeof(buf), "\x1b]M%c%ld;%s\x07", type, g_consumed, payload ? payload : "");
  if(n >= (int)sizeof(buf)) { dprintf(g_err, "DRIVER-ERROR: marker payload too long\n"); _exit(3); }
  for(int off = 0; off < n;)
  {
    ssize_t k = write(g_tty, buf + off, n - off);
    if(k < 0) { if(errno == EINTR) continue; _exit(4); }
    off += (int)k;
  }
}

extern "C" ssize_t read(int fd, void* buf, size_t n)
{
  if(!real_read) real_read = (read_fn)dlsym(RTLD_NEXT, "read");
  if(g_child && fd == 0)
  {
    struct pollfd p = {0, POLLIN, 0};
    if(poll(&p, 1, 0) == 0) marker('I', 0);
    ssize_t r = real_read(fd, buf, n);
    if(r > 0) g_consumed += r;
    return r;
  }
  return real_read(fd, buf, n);
}

extern "C" int select(int nfds, fd_set* r, fd_set* w, fd_set* e, struct timeval* tv)
{
  if(!real_select) real_select = (select_fn)dlsym(RTLD_NEXT, "select");
  if(g_child && r && nfds > 0 && FD_ISSET(0, r))
  {
    fd_set c = *r;
    struct timeval z = {0, 0};
    if(real_select(nfds, &c, 0, 0, &z) == 0) marker('I', 0);
  }
  return real_select(nfds, r, w, e, tv);
}

static int readline_fd(int fd, char* buf, int cap)
{
  int n = 0;
  for(;;)
  {
    char c;
    ssize_t k = real_read(fd, &c, 1);
    if(k == 0) return -1;
    if(k < 0) { if(errno == EINTR) continue; return -1; }
    if(c == '\n') { buf[n] = 0; return n; }
    if(n + 1 < cap) buf[n++] = c;
  }
}

static void child_main(int slave, int cmdfd, int utf8)
{
  if(!real_read) real_read = (read_fn)dlsym(RTLD_NEXT, "read");
  prctl(PR_SET_PDEATHSIG, SIGKILL);
  signal(SIGALRM, SIG_DFL);
  alarm(0);
  g_err = fcntl(2, F_DUPFD_CLOEXEC, 200);
  // the op file and the trace file are shared with the driver (same file offsets): the child must never touch them,
  // not even through the stdio clean-up of exit()
  for(int fd = 3; fd < 200; ++fd) if(fd != slave && fd != cmdfd) close(fd);
  __sanitizer_set_report_fd((void*)(long)g_err);
  if(setsid() < 0 || ioctl(slave, TIOCSCTTY, 0) < 0) { dprintf(g_err, "DRIVER-ERROR: cannot acquire the controlling terminal\n"); _exit(3); }
  dup2(slave, 0); dup2(slave, 1); dup2(slave, 2);
  g_tty = fcntl(slave, F_DUPFD_CLOEXEC, 210);
  close(slave);
  setenv("LANG", utf8 ? "C.UTF-8" : "C", 1);
  struct termios t0, t1;
  tcgetattr(0, &t0);
  g_child = 1;
  Console::Prompt* p = new Console::Prompt;
  marker('O', "");
  static char cmd[1 << 14], hex[1 << 14];
  for(;;)
  {
    int n = readline_fd(cmdfd, cmd, sizeof(cmd));
    if(n < 0) _exit(5);
    if(cmd[0] == 'L')
    {
      String prompt;
      for(const char* h = cmd + 2; h[0] && h[1]; h += 2) prompt.append((char)(hexv(h[0]) * 16 + hexv(h[1])));
      String line = p ? p->getLine(prompt) : String();
      usize len = line.length();
      if(len * 2 + 1 > sizeof(hex)) { dprintf(g_err, "DRIVER-ERROR: returned line too long\n"); _exit(3); }
      const char* d = line;
      for(usize i = 0; i < len; ++i) sprintf(hex + 2 * i, "%02x", (unsigned)(unsigned char)d[i]);
      hex[2 * len] = 0;
      marker('R', hex);
    }
    else if(cmd[0] == 'C')
    {
      delete p;
      p = 0;
      tcgetattr(0, &t1);
      int same = t0.c_iflag == t1.c_iflag && t0.c_oflag == t1.c_oflag && t0.c_cflag == t1.c_cflag && t0.c_lflag == t1.c_lflag &&
                 memcmp(t0.c_cc, t1.c_cc, sizeof(t0.c_cc)) == 0 && isatty(1) && isatty(2);
      marker('C', same ? "1" : "0");
    }
    else if(cmd[0] == 'Q')
    {
      g_child = 0;
      exit(0);             // runs atexit handlers and the leak check
    }
  }
}

// ------------------------------------------------------------------------------------------------- terminal side
enum { ROWS = 96, MAXW = 64 };
static int ROW0 = 2, U8 = 1;         // the cursor row when the application starts; UTF-8 locale?
static int master = -1, cmdw = -1;
static pid_t child = 0;
static long g_written = 0;
static int W = 0, SC = 0, R0 = 0;
static int grid[ROWS][MAXW];
static int crow, ccol, autowrap, pendwrap, lenient;
static int scrolled;              // rows that left the screen at the top
static int in_line = 0;
static int abandoned = 0;             // getLine did not return when the generator expected it: the rest of the execution is skipped
static long g_reset_line = 0;         // "ln" of an event = index of its op within the execution
// event of the pump
static char ev_type;
static long ev_count;
static char ev_payload[1 << 14];

static void kill_child()
{
  if(child > 0) { kill(child, SIGKILL); int st; waitpid(child, &st, 0); child = 0; }
  if(master >= 0) { close(master); master = -1; }
  if(cmdw >= 0) { close(cmdw); cmdw = -1; }
  in_line = 0;
}
static void drv_error(const char* what, long v)
{
  fprintf(stderr, "DRIVER-ERROR: %s (%ld) at op line %ld\n", what, v, g_lineno);
  kill_child();
  exit(3);
}
static void child_gone()
{
  int st = 0;
  waitpid(child, &st, 0);
  child = 0;
  fflush(g_out);
  if(WIFEXITED(st))
  {
    fprintf(stderr, "application process exited with code %d at op line %ld\n", WEXITSTATUS(st), g_lineno);
    exit(WEXITSTATUS(st) ? WEXITSTATUS(st) : 96);
  }
  fprintf(stderr, "application process killed by signal %d at op line %ld\n", WTERMSIG(st), g_lineno);
  exit(100 + WTERMSIG(st));
}

static void emu_reset(int w, int sc, int bottom)
{
  W = w; SC = sc; ROW0 = bottom ? ROWS - 1 : 2;
  for(int r = 0; r < ROWS; ++r) for(int c = 0; c < MAXW; ++c) grid[r][c] = 32;
  for(int c = 0; c < sc; ++c) grid[ROW0][c] = 'x';
  crow = ROW0; ccol = sc; autowrap = 1; pendwrap = 0; lenient = 0; scrolled = 0;
  R0 = ROW0 + (sc > 0 ? 1 : 0);
}
static void emu_linefeed()
{
  if(crow + 1 < ROWS) { ++crow; return; }
  memmove(grid[0], grid[1], sizeof(grid[0]) * (ROWS - 1));       // bottom row: the screen scrolls
  for(int c = 0; c < MAXW; ++c) grid[ROWS - 1][c] = 32;
  ++scrolled;
}
static void emu_put(int cp)
{
  if(pendwrap && autowrap)
  {
    ccol = 0;
    emu_linefeed();
  }
  pendwrap = 0;
  grid[crow][ccol] = cp;
  if(ccol < W - 1) ++ccol;
  else if(autowrap) pendwrap = 1;
}
static void master_write(const void* p, size_t n)
{
  const char* s = (const char*)p;
  while(n)
  {
    ssize_t k = write(master, s, n);
    if(k < 0) { if(errno == EINTR) continue; child_gone(); }
    s += k; n -= k; g_written += k;
  }
}

static int est = 0;              // 0 ground, 1 ESC, 2 CSI, 3 OSC, 4 utf-8 tail
static char par[64]; static int npar;
static char osc[1 << 14]; static int nosc;
static int u_need, u_cp;

static void emu_csi(int fin)
{
  par[npar] = 0;
  int n = atoi(par);
  int hasnum = par[0] >= '0' && par[0] <= '9';
  if(hasnum && n == 0) n = 1;
  if(!npar) n = 1;
  if(fin == 'n' && strcmp(par, "6") == 0)
  {
    char rep[32];
    int k = snprintf(rep, sizeof(rep), "\x1b[%d;%dR", crow + 1, ccol + 1);
    master_write(rep, k);
    return;
  }
  if((fin == 'h' || fin == 'l') && strcmp(par, "?7") == 0) { autowrap = fin == 'h'; pendwrap = 0; return; }
  if((fin == 'A' || fin == 'B' || fin == 'C' || fin == 'D') && (npar == 0 || hasnum) && !strchr(par, ';') && !strchr(par, '?'))
  {
    pendwrap = 0;
    if(fin == 'A') crow = crow - n < 0 ? 0 : crow - n;
    if(fin == 'B') crow = crow + n > ROWS - 1 ? ROWS - 1 : crow + n;
    if(fin == 'C') ccol = ccol + n > W - 1 ? W - 1 : ccol + n;
    if(fin == 'D') ccol = ccol - n < 0 ? 0 : ccol - n;
    return;
  }
  if(!lenient) drv_error("control sequence not modelled by the screen emulator, final byte", fin);
}
static void emu_osc()
{
  osc[nosc] = 0;
  if(osc[0] != 'M' || !osc[1]) { if(!lenient) drv_error("operating system command not modelled", osc[0]); return; }
  char* semi = strchr(osc, ';');
  if(!semi) drv_error("malformed marker", 0);
  ev_type = osc[1];
  ev_count = strtol(osc + 2, 0, 10);
  snprintf(ev_payload, sizeof(ev_payload), "%s", semi + 1);
}
static void emu_byte(int b)
{
  switch(est)
  {
  case 1:
    if(b == 0x1b && lenient) return;                       // garbage ESC followed by a real sequence
    if(b == '[') { est = 2; npar = 0; return; }
    if(b == ']') { est = 3; nosc = 0; return; }
    est = 0;
    if(!lenient) drv_error("escape sequence not modelled by the screen emulator, byte", b);
    return;
  case 2:
    if(b == 0x1b && lenient) { est = 1; return; }
    if((b >= '0' && b <= '9') || b == ';' || b == '?')
    {
      if(npar + 1 >= (int)sizeof(par)) drv_error("control sequence too long", npar);
      par[npar++] = (char)b;
      return;
    }
    est = 0;
    emu_csi(b);
    return;
  case 3:
    if(b == 0x1b && lenient) { est = 1; return; }
    if(b == 7) { est = 0; emu_osc(); return; }
    if(nosc + 1 >= (int)sizeof(osc)) drv_error("marker too long", nosc);
    osc[nosc++] = (char)b;
    return;
  case 4:
    if((b & 0xc0) == 0x80)
    {
      u_cp = (u_cp << 6) | (b & 0x3f);
      if(--u_need == 0) { est = 0; emu_put(u_cp); }
      return;
    }
    est = 0;
    if(!lenient) drv_error("ill-formed UTF-8 written to the terminal, byte", b);
    emu_put(0xfffd);
    break;       // re-interpret b in the ground state
  }
  if(b == 0x1b) { est = 1; return; }
  if(b == '\r') { ccol = 0; pendwrap = 0; return; }
  if(b == '\n') { pendwrap = 0; emu_linefeed(); return; }
  if(b == 0 || b == 7 || b == 0x7f) return;                 // NUL, BEL, DEL: no effect on a VT100 screen
  if(b == 8) { if(ccol > 0) --ccol; pendwrap = 0; return; }
  if(b < 0x20)
  {
    if(!lenient) drv_error("control character not modelled by the screen emulator", b);
    return;
  }
  if(b < 0x80) { emu_put(b); return; }
  if((b & 0xe0) == 0xc0) { est = 4; u_need = 1; u_cp = b & 0x1f; return; }
  if((b & 0xf0) == 0xe0) { est = 4; u_need = 2; u_cp = b & 0x0f; return; }
  if((b & 0xf8) == 0xf0) { est = 4; u_need = 3; u_cp = b & 0x07; return; }
  if(!lenient) drv_error("ill-formed UTF-8 written to the terminal, byte", b);
  emu_put(0xfffd);
}

// read the terminal's input (= the prompt's output) until the application sleeps having consumed everything, or a
// life-cycle marker arrives.  Returns the marker type.
static char pump()
{
  static unsigned char buf[4096];
  for(;;)
  {
    ssize_t n = read(master, buf, sizeof(buf));
    if(n < 0 && errno == EINTR) continue;
    if(n <= 0) child_gone();
    char got = 0;
    for(ssize_t i = 0; i < n; ++i)
    {
      ev_type = 0;
      emu_byte(buf[i]);
      if(ev_type == 'I') { if(ev_count == g_written) got = 'I'; }
      else if(ev_type) got = ev_type;
    }
    if(got) return got;
  }
}

static void log_obs(const char* op, const unsigned char* k, int nk, const unsigned char* prompt, int np, int st, int modeok)
{
  j_begin(op);
  j_int("ln", g_lineno - g_reset_line);
  j_int("w", W); j_int("sc", SC); j_int("u8", U8);
  j_bytes("k", k, nk);
  j_bytes("prompt", prompt, np);
  j_int("st", st);
  // screen (r0: where the prompt's first row is now; rows that scrolled off the top are lost)
  int r0 = R0 - scrolled, pre = 1;
  if(r0 < 0) { r0 = 0; pre = 0; }
  int last = -1;
  for(int r = r0; r < ROWS; ++r) for(int c = 0; c < W; ++c) if(grid[r][c] != 32) last = (r - r0) * W + c;
  j_arr_begin("text");
  for(int i = 0; i <= last; ++i) j_arr_int(grid[r0 + i / W][i % W]);
  j_arr_end();
  j_int("cur", (crow - r0) * W + ccol);
  for(int r = 0; r < r0; ++r) for(int c = 0; c < MAXW; ++c) if(grid[r][c] != ((r + scrolled == ROW0 && c < SC) ? 'x' : 32)) pre = 0;
  for(int r = 0; r < ROWS; ++r) for(int c = W; c < MAXW; ++c) if(grid[r][c] != 32) pre = 0;
  j_int("pre", pre);
  // returned line
  int nr = 0;
  static unsigned char ret[1 << 13];
  if(st == 1) for(const char* h = ev_payload; h[0] && h[1]; h += 2) ret[nr++] = (unsigned char)(hexv(h[0]) * 16 + hexv(h[1]));
  j_bytes("ret", ret, nr);
  j_int("left", st == 1 ? g_written - ev_count : 0);
  j_int("modeok", modeok);
  j_end();
}

static void send_cmd(const char* s)
{
  size_t n = strlen(s);
  while(n)
  {
    ssize_t k = write(cmdw, s, n);
    if(k < 0) { if(errno == EINTR) continue; child_gone(); }
    s += k; n -= k;
  }
}

void drv_init(int, char**) { signal(SIGPIPE, SIG_IGN); g_op_timeout = 8; }      // one op is a few system calls: 8 s is a hang
void drv_reset() { kill_child(); g_reset_line = g_lineno; abandoned = 0; }
void drv_fini() { kill_child(); }

void drv_apply(const char* op)
{
  if(strcmp(op, "open") == 0)
  {
    int w = (int)tok_int(), sc = (int)tok_int(), q = (int)tok_int(), utf8 = (int)tok_int();
    int bottom = tok_more() ? (int)tok_int() : 0;
    U8 = utf8;
    if(child) drv_error("open while a prompt exists", 0);
    if(w < 2 || w > MAXW || sc < 0 || sc >= w) drv_error("bad width / start column", w);
    emu_reset(w, sc, bottom);
    struct winsize ws;
    memset(&ws, 0, sizeof(ws));
    ws.ws_row = ROWS; ws.ws_col = q ? 0 : w;
    int slave;
    if(openpty(&master, &slave, 0, 0, &ws) != 0) drv_error("openpty failed", errno);
    int pp[2];
    if(pipe(pp) != 0) drv_error("pipe failed", errno);
    fflush(g_out); fflush(stderr);
    g_written = 0;
    child = fork();
    if(child < 0) drv_error("fork failed", errno);
    if(child == 0)
    {
      close(master); close(pp[1]);
      child_main(slave, pp[0], utf8);
      _exit(0);
    }
    close(slave); close(pp[0]);
    cmdw = pp[1];
    fcntl(cmdw, F_SETFD, FD_CLOEXEC);
    fcntl(master, F_SETFD, FD_CLOEXEC);
    est = 0;
    char t = pump();
    if(t == 'I')
    {
      // the constructor has consumed every byte the terminal sent (all its queries were answered) and sleeps waiting for more
      fflush(g_out);
      fprintf(stderr, "DRIVER-HANG: the Prompt constructor waits for terminal input that is not coming (op line %ld)\n", g_lineno);
      kill_child();
      exit(97);
    }
    if(t != 'O') drv_error("unexpected marker while constructing the prompt", t);
    j_begin("open"); j_int("ln", g_lineno - g_reset_line); j_int("w", w); j_int("sc", sc); j_int("u8", U8); j_bytes("k", 0, 0); j_bytes("prompt", 0, 0); j_int("st", 0);
    j_bytes("text", 0, 0); j_int("cur", (crow - (R0 - scrolled)) * W + ccol); j_int("pre", 1); j_bytes("ret", 0, 0); j_int("left", 0);
    j_int("modeok", 1); j_end();
    return;
  }
  if(abandoned) return;
  if(!child) drv_error("no prompt (open first)", 0);
  if(in_line && (strcmp(op, "line") == 0 || strcmp(op, "close") == 0))
  {
    // getLine never returned (judged by the trace specification where it must): the application is abandoned
    kill_child();
    abandoned = 1;
    j_begin("abandon"); j_int("ln", g_lineno - g_reset_line); j_end();
    return;
  }
  if(strcmp(op, "line") == 0)
  {
    int np; unsigned char* pr = tok_bytes(&np, 0);
    static char cmd[1 << 13];
    int n = snprintf(cmd, sizeof(cmd), "L ");
    for(int i = 0; i < np; ++i) n += snprintf(cmd + n, sizeof(cmd) - n, "%02x", pr[i]);
    snprintf(cmd + n, sizeof(cmd) - n, "\n");
    send_cmd(cmd);
    in_line = 1;
    char t = pump();
    if(t != 'I' && t != 'R') drv_error("unexpected marker in line", t);
    if(t == 'R') in_line = 0;
    log_obs("line", 0, 0, pr, np, t == 'R', 1);
    free(pr);
    return;
  }
  if(strcmp(op, "key") == 0 || strcmp(op, "junk") == 0)
  {
    int nk; unsigned char* k = tok_bytes(&nk, 0);
    if(op[0] == 'j') lenient = 1;
    master_write(k, nk);
    if(!in_line) { log_obs("ahead", k, nk, 0, 0, 0, 1); free(k); return; }
    char t = pump();
    if(t != 'I' && t != 'R') drv_error("unexpected marker in key", t);
    if(t == 'R') in_line = 0;
    log_obs("key", k, nk, 0, 0, t == 'R', 1);
    free(k);
    return;
  }
  if(strcmp(op, "finish") == 0)
  {
    // the user presses enter until getLine returns (at most 6 times); one key event per enter
    for(int i = 0; i < 6 && in_line; ++i)
    {
      unsigned char cr = 13;
      master_write(&cr, 1);
      char t = pump();
      if(t != 'I' && t != 'R') drv_error("unexpected marker in finish", t);
      if(t == 'R') in_line = 0;
      log_obs("key", &cr, 1, 0, 0, t == 'R', 1);
    }
    return;                // still running: the trace shows it (LineEdit: of 4 consecutive enters one must return)
  }
  if(strcmp(op, "close") == 0)
  {
    send_cmd("C\n");
    char t = pump();
    if(t != 'C') drv_error("unexpected marker in close", t);
    int modeok = ev_payload[0] == '1';
    send_cmd("Q\n");
    int st = 0;
    waitpid(child, &st, 0);
    child = 0;
    close(master); master = -1; close(cmdw); cmdw = -1;
    if(!WIFEXITED(st) || WEXITSTATUS(st) != 0)
    {
      fflush(g_out);
      fprintf(stderr, "application process ended abnormally at exit (status 0x%x)\n", st);
      exit(WIFEXITED(st) ? WEXITSTATUS(st) : 100 + WTERMSIG(st));
    }
    log_obs("close", 0, 0, 0, 0, 0, modeok);
    return;
  }
  drv_error("unknown op", 0);
}
