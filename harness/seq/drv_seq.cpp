// Driver for nstd::List, nstd::Array and nstd::PoolList (property C03; also logs what C04/C05 need).
// Two container variables; the class of a variable is chosen by the op "new <i> <list|array|poollist> <capacity>".
// Every other op line is "<op> <i> [<v> [<p>]]".  After every op ONE JSON line is written:
//   op, i, v, p, kd        the request ("nop" when the class of variable i does not offer the operation or a documented
//                          precondition does not hold -- the request is then NOT executed)
//   r                      serial of the element designated by the returned iterator/reference, -1 = end(), -2 = no result
//   b                      integer result (operator== : 1/0, 2 when == and != disagree), -2 = none
//   kind, c, sz, em, bk, cap   both variables: class, elements [value, serial, address id] in iteration order, size(),
//                          isEmpty(), serials met iterating backwards from end(), Array::capacity() (-1 for the others)
//   its                    iterators/references kept since the insertion of still-living elements of List/PoolList,
//                          re-dereferenced now: [serial at insertion, serial designated now, 1 if &element unchanged]
//   lt                     instance registry counters (J_LIFETIME)
//   ov, ld, q (C04)        ov[j] = instances an empty container object of variable j's class owns by itself (measured at
//                          start-up: its end sentinel), ld = held instances that the registry does not list as alive,
//                          q = live instances at the quiescent point of "fini" (everything destroyed), -1 otherwise
// "fini <i>" destroys both variables, records the number of live instances, and recreates them as empty lists.
#include "drv.h"
#include <pthread.h>
#include "tracked.h"
#include <nstd/List.hpp>
#include <nstd/Array.hpp>
#include <nstd/PoolList.hpp>

typedef List<Tracked> TList;
typedef Array<Tracked> TArray;
typedef PoolList<NoCopy> TPool;
// serials are logged through ser(): anything that is not a serial handed out in this execution (garbage read through a
// stale pointer) becomes -9 so that the trace stays within TLC's 32-bit integers
static long ser(long s) { return s > 0 && s < trk_next ? s : -9; }
enum { K_LIST = 0, K_ARRAY = 1, K_POOL = 2 };
static const char* kindName[3] = {"list", "array", "poollist"};

struct Var { int kind; TList* l; TArray* a; TPool* p; };
static Var V[3];

struct Kept { int kind; TList::Iterator li; TPool::Iterator pi; long serial; const void* addr; };
enum { KEPT_MAX = 256 };
static Kept kept[KEPT_MAX];
static int nkept = 0;

static void destroyVar(int i)
{
  delete V[i].l; delete V[i].a; delete V[i].p;
  V[i].l = 0; V[i].a = 0; V[i].p = 0;
}
static void createVar(int i, int kind, long cap)
{
  V[i].kind = kind;
  if(kind == K_LIST) V[i].l = new TList;
  else if(kind == K_ARRAY) V[i].a = cap > 0 ? new TArray((usize)cap) : new TArray;
  else V[i].p = new TPool;
}
static long g_ov[3] = {0, 0, 0};     // instances owned by an empty container of each class
static long g_ld = 0, g_q = -1;
static int aliveT(const Tracked& t) { return t.magic == 0x600DF00Du && t.serial > 0 && t.serial < trk_next && trk_state[t.serial] == 1; }
static int aliveN(const NoCopy& t) { return t.magic == 0x600DF00Du && t.serial > 0 && t.serial < trk_next && trk_state[t.serial] == 1; }
void drv_init(int, char**)
{
  g_op_timeout = 8; V[1].l = V[2].l = 0; V[1].a = V[2].a = 0; V[1].p = V[2].p = 0; trk_reset_registry();
  for(int k = 0; k < 3; ++k)
  { // measure what an empty container object owns (created and destroyed again: the balance must return to zero)
    long before = trk_live();
    createVar(1, k, 0);
    g_ov[k] = trk_live() - before;
    destroyVar(1);
    if(trk_live() != before) g_ov[k] = -1000;
  }
  trk_reset_registry();
}
void drv_fini() { destroyVar(1); destroyVar(2); nkept = 0; }
void drv_reset()
{
  drv_fini();
  trk_reset_registry();
  addr_reset();
  createVar(1, K_LIST, 0);
  createVar(2, K_LIST, 0);
}

static long varSize(int i)
{
  return V[i].kind == K_LIST ? (long)V[i].l->size() : V[i].kind == K_ARRAY ? (long)V[i].a->size() : (long)V[i].p->size();
}
static TList::Iterator listAt(TList& l, long p) { TList::Iterator it = l.begin(); while(p-- > 0) ++it; return it; }
static TArray::Iterator arrayAt(TArray& a, long p) { TArray::Iterator it = a.begin(); while(p-- > 0) ++it; return it; }
static TPool::Iterator poolAt(TPool& l, long p) { TPool::Iterator it = l.begin(); while(p-- > 0) ++it; return it; }

static void keepList(TList& l, const Tracked& r, const TList::Iterator& it)
{
  if(nkept >= KEPT_MAX) return;
  (void)l;
  kept[nkept].kind = K_LIST; kept[nkept].li = it; kept[nkept].serial = r.serial; kept[nkept].addr = &r; ++nkept;
}
static void keepPool(const NoCopy& r, const TPool::Iterator& it)
{
  if(nkept >= KEPT_MAX) return;
  kept[nkept].kind = K_POOL; kept[nkept].pi = it; kept[nkept].serial = r.serial; kept[nkept].addr = &r; ++nkept;
}

// ---- projection -----------------------------------------------------------------------------------------------
enum { PROJ_MAX = 4096 };
static long liveSerial[2 * PROJ_MAX];
static int nlive = 0;

static void projectVar(int i)
{
  long n = varSize(i), bound = n + 4, cnt = 0;
  fputc('[', g_out);
  if(V[i].kind == K_LIST)
  {
    for(TList::Iterator it = V[i].l->begin(), end = V[i].l->end(); it != end && cnt < bound; ++it, ++cnt)
    {
      const Tracked& t = *it;
      fprintf(g_out, cnt ? ",[%d,%ld,%d]" : "[%d,%ld,%d]", t.value, ser(t.serial), addr_id(&t));
      if(nlive < 2 * PROJ_MAX) liveSerial[nlive++] = ser(t.serial);
      if(!aliveT(t)) ++g_ld;
    }
  }
  else if(V[i].kind == K_ARRAY)
  {
    for(TArray::Iterator it = V[i].a->begin(), end = V[i].a->end(); it != end && cnt < bound; ++it, ++cnt)
    {
      const Tracked& t = *it;
      fprintf(g_out, cnt ? ",[%d,%ld,%d]" : "[%d,%ld,%d]", t.value, ser(t.serial), addr_id(&t));
      if(nlive < 2 * PROJ_MAX) liveSerial[nlive++] = ser(t.serial);
      if(!aliveT(t)) ++g_ld;
    }
  }
  else
  {
    for(TPool::Iterator it = V[i].p->begin(), end = V[i].p->end(); it != end && cnt < bound; ++it, ++cnt)
    {
      const NoCopy& t = *it;
      fprintf(g_out, cnt ? ",[%d,%ld,%d]" : "[%d,%ld,%d]", t.value, ser(t.serial), addr_id(&t));
      if(nlive < 2 * PROJ_MAX) liveSerial[nlive++] = ser(t.serial);
      if(!aliveN(t)) ++g_ld;
    }
  }
  fputc(']', g_out);
}
static void backwardVar(int i)
{
  long n = varSize(i), bound = n + 4, cnt = 0;
  fputc('[', g_out);
  if(V[i].kind == K_LIST)
  {
    TList::Iterator it = V[i].l->end(), begin = V[i].l->begin();
    while(it != begin && cnt < bound) { --it; fprintf(g_out, cnt ? ",%ld" : "%ld", ser((*it).serial)); ++cnt; }
  }
  else if(V[i].kind == K_ARRAY)
  {
    TArray::Iterator it = V[i].a->end(), begin = V[i].a->begin();
    while(it != begin && cnt < bound) { --it; fprintf(g_out, cnt ? ",%ld" : "%ld", ser((*it).serial)); ++cnt; }
  }
  else
  {
    TPool::Iterator it = V[i].p->end(), begin = V[i].p->begin();
    while(it != begin && cnt < bound) { --it; fprintf(g_out, cnt ? ",%ld" : "%ld", ser((*it).serial)); ++cnt; }
  }
  fputc(']', g_out);
}

struct SortBig { long n; long order; long ok; };
static void* sortbig_thread(void* arg)
{
  SortBig* job = (SortBig*)arg;
  List<int> l;
  for(long k = 0; k < job->n; ++k) l.append(job->order == 0 ? (int)(job->n - k) : job->order == 1 ? (int)k : (int)((k % 7) * 1000 - k));
  l.sort();
  long cnt = 0, ok = 1; long long sum = 0, want = 0; int prev = 0;
  for(long k = 0; k < job->n; ++k) want += job->order == 0 ? (int)(job->n - k) : job->order == 1 ? (int)k : (int)((k % 7) * 1000 - k);
  for(List<int>::Iterator it = l.begin(), end = l.end(); it != end; ++it, ++cnt) { if(cnt && *it < prev) ok = 0; prev = *it; sum += *it; }
  job->ok = ok && cnt == job->n && sum == want;
  return 0;
}
static void observe(const char* op, int i, long v, long p, const char* kd, long r, long b)
{
  j_begin(op);
  j_int("i", i); j_int("v", v); j_int("p", p); j_str("kd", kd); j_int("r", r); j_int("b", b);
  fprintf(g_out, ",\"kind\":[\"%s\",\"%s\"]", kindName[V[1].kind], kindName[V[2].kind]);
  nlive = 0; g_ld = 0;
  fputs(",\"c\":[", g_out); projectVar(1); fputc(',', g_out); projectVar(2); fputc(']', g_out);
  fprintf(g_out, ",\"sz\":[%ld,%ld]", varSize(1), varSize(2));
  int em1 = V[1].kind == K_LIST ? V[1].l->isEmpty() : V[1].kind == K_ARRAY ? V[1].a->isEmpty() : V[1].p->isEmpty();
  int em2 = V[2].kind == K_LIST ? V[2].l->isEmpty() : V[2].kind == K_ARRAY ? V[2].a->isEmpty() : V[2].p->isEmpty();
  fprintf(g_out, ",\"em\":[%d,%d]", em1, em2);
  fputs(",\"bk\":[", g_out); backwardVar(1); fputc(',', g_out); backwardVar(2); fputc(']', g_out);
  fprintf(g_out, ",\"cap\":[%ld,%ld]", V[1].kind == K_ARRAY ? (long)V[1].a->capacity() : -1L,
          V[2].kind == K_ARRAY ? (long)V[2].a->capacity() : -1L);
  // kept iterators: drop those whose element no longer lives, re-dereference the others
  fputs(",\"its\":[", g_out);
  int w = 0, first = 1;
  for(int k = 0; k < nkept; ++k)
  {
    int alive = 0;
    for(int x = 0; x < nlive; ++x) if(liveSerial[x] == kept[k].serial) { alive = 1; break; }
    if(!alive) continue;
    long now; const void* a;
    if(kept[k].kind == K_LIST) { const Tracked& t = *kept[k].li; now = ser(t.serial); a = &t; }
    else { const NoCopy& t = *kept[k].pi; now = ser(t.serial); a = &t; }
    fprintf(g_out, first ? "[%ld,%ld,%d]" : ",[%ld,%ld,%d]", kept[k].serial, now, a == kept[k].addr ? 1 : 0);
    first = 0;
    kept[w++] = kept[k];
  }
  nkept = w;
  fputc(']', g_out);
  fprintf(g_out, ",\"ov\":[%ld,%ld],\"ld\":%ld,\"q\":%ld", g_ov[V[1].kind], g_ov[V[2].kind], g_ld, g_q);
  g_q = -1;
  J_LIFETIME();
  j_end();
}

static int kindOf(const char* s)
{
  for(int k = 0; k < 3; ++k) if(!strcmp(s, kindName[k])) return k;
  fprintf(stderr, "DRIVER-ERROR: unknown kind %s\n", s); exit(3);
}

#define NOP() do { observe("nop", i, v, p, "", -2, -2); return; } while(0)

void drv_apply(const char* op)
{
  int i = (int)tok_int();
  if(i < 1 || i > 2) { fprintf(stderr, "DRIVER-ERROR: bad variable %d\n", i); exit(3); }
  int o = 3 - i;
  long v = 0, p = 0, r = -2, b = -2;
  if(!strcmp(op, "new"))
  {
    const char* kd = tok_next();
    int kind = kindOf(kd ? kd : "");
    p = tok_more() ? tok_int() : 0;
    destroyVar(i);
    createVar(i, kind, p);
    observe(op, i, 0, p, kindName[kind], -2, -2);
    return;
  }
  if(!strcmp(op, "fini"))
  { // destroy everything (lifetime balance for C04), then start again with two empty lists
    drv_fini();
    g_q = trk_live();
    createVar(1, K_LIST, 0);
    createVar(2, K_LIST, 0);
    observe(op, i, 0, 0, "", -2, -2);
    return;
  }
  if(tok_more()) v = tok_int();
  if(tok_more()) p = tok_int();
  Var& x = V[i];
  Var& y = V[o];
  const int K = x.kind;
  const bool same = y.kind == K;
  const long n = varSize(i);

  if(!strcmp(op, "append"))
  {
    if(K == K_LIST) { Tracked& t = x.l->append(Tracked((int)v)); r = ser(t.serial); TList::Iterator it = x.l->end(); --it; keepList(*x.l, t, it); }
    else if(K == K_ARRAY) { Tracked& t = x.a->append(Tracked((int)v)); r = ser(t.serial); }
    else { NoCopy& t = x.p->append(); t.value = (int)v; r = ser(t.serial); TPool::Iterator it = x.p->end(); --it; keepPool(t, it); }
  }
  else if(!strcmp(op, "prepend"))
  {
    if(K != K_LIST) NOP();
    Tracked& t = x.l->prepend(Tracked((int)v)); r = ser(t.serial); keepList(*x.l, t, x.l->begin());
  }
  else if(!strcmp(op, "insert"))
  {
    if(K != K_LIST || p < 0 || p > n) NOP();
    // positions 0 and n are passed as the expressions begin() / end() themselves (references to the container's own members:
    // an operation that re-seats them while it still uses its argument goes wrong only then)
    TList::Iterator it = p == 0 ? x.l->insert(x.l->begin(), Tracked((int)v)) : p == n ? x.l->insert(x.l->end(), Tracked((int)v)) : x.l->insert(listAt(*x.l, p), Tracked((int)v));
    r = it == x.l->end() ? -1 : ser((*it).serial);
    if(it != x.l->end()) keepList(*x.l, *it, it);
  }
  else if(!strcmp(op, "load"))                  // macro: p calls of append() with the decimal digits of v as values
  {
    if(K == K_POOL || p < 0 || p > 9 || v < 0) NOP();
    long d = 1;
    for(long k = 1; k < p; ++k) d *= 10;
    for(long k = 0; k < p; ++k, d /= 10)
    {
      int val = (int)((v / d) % 10);
      if(K == K_LIST) x.l->append(Tracked(val)); else x.a->append(Tracked(val));
    }
  }
  else if(!strcmp(op, "appendn"))
  {
    if(K != K_ARRAY || p < 0 || p > 64) NOP();
    Tracked* t = (Tracked*)malloc(sizeof(Tracked) * (p ? p : 1));
    for(long k = 0; k < p; ++k) new(&t[k]) Tracked((int)v);
    x.a->append(t, (usize)p);
    for(long k = 0; k < p; ++k) t[k].~Tracked();
    free(t);
  }
  else if(!strcmp(op, "appendall"))
  {
    if(!same || K == K_POOL) NOP();
    if(K == K_LIST) x.l->append(*y.l); else x.a->append(*y.a);
  }
  else if(!strcmp(op, "prependall"))
  {
    if(!same || K != K_LIST) NOP();
    x.l->prepend(*y.l);
  }
  else if(!strcmp(op, "insertall"))
  {
    if(!same || K != K_LIST || p < 0 || p > n) NOP();
    TList::Iterator it = p == 0 ? x.l->insert(x.l->begin(), *y.l) : p == n ? x.l->insert(x.l->end(), *y.l) : x.l->insert(listAt(*x.l, p), *y.l);
    r = it == x.l->end() ? -1 : ser((*it).serial);
  }
  else if(!strcmp(op, "rmat"))
  {
    if(p < 0 || p >= n) NOP();
    if(K == K_LIST) { TList::Iterator it = p == 0 ? x.l->remove(x.l->begin()) : x.l->remove(listAt(*x.l, p)); r = it == x.l->end() ? -1 : ser((*it).serial); }
    else if(K == K_ARRAY) { TArray::Iterator it = p == 0 ? x.a->remove(x.a->begin()) : x.a->remove(arrayAt(*x.a, p)); r = it == x.a->end() ? -1 : ser((*it).serial); }
    else { TPool::Iterator it = p == 0 ? x.p->remove(x.p->begin()) : x.p->remove(poolAt(*x.p, p)); r = it == x.p->end() ? -1 : ser((*it).serial); }
  }
  else if(!strcmp(op, "rmidx"))
  {
    if(K != K_ARRAY || p < 0) NOP();
    x.a->remove((usize)p);
  }
  else if(!strcmp(op, "rmval"))
  {
    if(K != K_LIST) NOP();
    x.l->remove(Tracked((int)v));
  }
  else if(!strcmp(op, "rmref"))
  {
    if(K != K_POOL || p < 0 || p >= n) NOP();
    x.p->remove(*poolAt(*x.p, p));
  }
  else if(!strcmp(op, "rmfront"))
  {
    if(n == 0) NOP();
    if(K == K_LIST) { TList::Iterator it = x.l->removeFront(); r = it == x.l->end() ? -1 : ser((*it).serial); }
    else if(K == K_ARRAY) { TArray::Iterator it = x.a->removeFront(); r = it == x.a->end() ? -1 : ser((*it).serial); }
    else { TPool::Iterator it = x.p->removeFront(); r = it == x.p->end() ? -1 : ser((*it).serial); }
  }
  else if(!strcmp(op, "rmback"))
  {
    if(n == 0) NOP();
    if(K == K_LIST) { TList::Iterator it = x.l->removeBack(); r = it == x.l->end() ? -1 : ser((*it).serial); }
    else if(K == K_ARRAY) { TArray::Iterator it = x.a->removeBack(); r = it == x.a->end() ? -1 : ser((*it).serial); }
    else { TPool::Iterator it = x.p->removeBack(); r = it == x.p->end() ? -1 : ser((*it).serial); }
  }
  else if(!strcmp(op, "clear"))
  {
    if(K == K_LIST) x.l->clear(); else if(K == K_ARRAY) x.a->clear(); else x.p->clear();
  }
  else if(!strcmp(op, "resize"))
  {
    if(K != K_ARRAY || p < 0 || p > 4096) NOP();
    x.a->resize((usize)p, Tracked((int)v));
  }
  else if(!strcmp(op, "resized"))
  {
    if(K != K_ARRAY || p < 0 || p > 4096) NOP();
    x.a->resize((usize)p);
  }
  else if(!strcmp(op, "reserve"))
  {
    if(K != K_ARRAY || p < 0 || p > 4096) NOP();
    x.a->reserve((usize)p);
  }
  else if(!strcmp(op, "swap"))
  {
    if(!same) NOP();
    if(K == K_LIST) x.l->swap(*y.l); else if(K == K_ARRAY) x.a->swap(*y.a); else x.p->swap(*y.p);
  }
  else if(!strcmp(op, "copy"))
  {
    if(!same || K == K_POOL) NOP();
    if(K == K_LIST) { TList* c = new TList(*y.l); delete x.l; x.l = c; }
    else { TArray* c = new TArray(*y.a); delete x.a; x.a = c; }
  }
  else if(!strcmp(op, "assign"))
  {
    if(!same || K == K_POOL) NOP();
    if(K == K_LIST) *x.l = *y.l; else *x.a = *y.a;
  }
  else if(!strcmp(op, "sort"))
  {
    if(K != K_LIST) NOP();
    x.l->sort();
  }
  else if(!strcmp(op, "poolsmall"))
  {
    if(p < 1 || p > 200) NOP();
    struct S5 { char c[5]; };
    PoolList<int> pi; PoolList<S5> ps; PoolList<char> pc;
    for(long k = 0; k < p; ++k) { pi.append((int)(k * 7 + 1)); S5 s5; for(int m = 0; m < 5; ++m) s5.c[m] = (char)(k + m); ps.append(s5); pc.append((char)(k + 3)); }
    long k = 0; b = 1;
    for(PoolList<int>::Iterator it = pi.begin(), end = pi.end(); it != end; ++it, ++k) if(*it != (int)(k * 7 + 1)) b = 0;
    if(k != p) b = 0;
    k = 0;
    for(PoolList<S5>::Iterator it = ps.begin(), end = ps.end(); it != end; ++it, ++k) for(int m = 0; m < 5; ++m) if((*it).c[m] != (char)(k + m)) b = 0;
    if(k != p) b = 0;
    k = 0;
    for(PoolList<char>::Iterator it = pc.begin(), end = pc.end(); it != end; ++it, ++k) if(*it != (char)(k + 3)) b = 0;
    if(k != p) b = 0;
  }
  else if(!strcmp(op, "sortbig"))
  {
    // a long monotone list sorted by a thread with a 256 KiB stack (the recursion depth must not grow with the length)
    if(p < 2 || p > 100000 || v < 0 || v > 2) NOP();
    SortBig job = { p, v, 0 };
    pthread_attr_t attr; pthread_attr_init(&attr); pthread_attr_setstacksize(&attr, 256 * 1024);
    pthread_t th;
    if(pthread_create(&th, &attr, sortbig_thread, &job) != 0) { fprintf(stderr, "DRIVER-ERROR: pthread_create\n"); exit(3); }
    pthread_join(th, 0);
    pthread_attr_destroy(&attr);
    b = job.ok;
  }
  else if(!strcmp(op, "find"))
  {
    if(K == K_POOL) NOP();
    if(K == K_LIST) { TList::Iterator it = x.l->find(Tracked((int)v)); r = it == x.l->end() ? -1 : ser((*it).serial); }
    else { TArray::Iterator it = x.a->find(Tracked((int)v)); r = it == x.a->end() ? -1 : ser((*it).serial); }
  }
  else if(!strcmp(op, "front"))
  {
    if(K == K_POOL || n == 0) NOP();           // PoolList::front()/back() do not compile when instantiated
    if(K == K_LIST) { r = ser(x.l->front().serial); if(ser(((const TList*)x.l)->front().serial) != r) r = -3; }
    else { r = ser(x.a->front().serial); if(ser(((const TArray*)x.a)->front().serial) != r) r = -3; }
  }
  else if(!strcmp(op, "back"))
  {
    if(K == K_POOL || n == 0) NOP();
    if(K == K_LIST) { r = ser(x.l->back().serial); if(ser(((const TList*)x.l)->back().serial) != r) r = -3; }
    else { r = ser(x.a->back().serial); if(ser(((const TArray*)x.a)->back().serial) != r) r = -3; }
  }
  else if(!strcmp(op, "eq"))
  {
    if(!same || K != K_LIST) NOP();
    b = (*x.l == *y.l) ? 1 : 0;
    if(b != !(*x.l != *y.l)) b = 2;
  }
  // ---- operations whose argument is the container itself or one of its own elements (property C04)
  else if(!strcmp(op, "swapself"))
  {
    if(K == K_LIST) x.l->swap(*x.l); else if(K == K_ARRAY) x.a->swap(*x.a); else x.p->swap(*x.p);
  }
  else if(!strcmp(op, "assignself"))
  {
    if(K == K_POOL) NOP();
    if(K == K_LIST) { TList& self = *x.l; *x.l = self; } else { TArray& self = *x.a; *x.a = self; }
  }
  else if(!strcmp(op, "appendself"))
  {
    if(K == K_POOL) NOP();
    if(K == K_LIST) x.l->append(*x.l); else x.a->append(*x.a);
  }
  else if(!strcmp(op, "prependself"))
  {
    if(K != K_LIST) NOP();
    x.l->prepend(*x.l);
  }
  else if(!strcmp(op, "insertself"))
  {
    if(K != K_LIST || p < 0 || p > n) NOP();
    TList::Iterator it = p == 0 ? x.l->insert(x.l->begin(), *x.l) : p == n ? x.l->insert(x.l->end(), *x.l) : x.l->insert(listAt(*x.l, p), *x.l);
    r = it == x.l->end() ? -1 : ser((*it).serial);
  }
  else if(!strcmp(op, "appendown"))
  {
    if(K == K_POOL || p < 0 || p >= n) NOP();
    if(K == K_LIST) { Tracked& t = x.l->append(*listAt(*x.l, p)); r = ser(t.serial); }
    else { Tracked& t = x.a->append((*x.a)[p]); r = ser(t.serial); }
  }
  else if(!strcmp(op, "insertown"))
  {
    if(K != K_LIST || p < 0 || p > n || v < 0 || v >= n) NOP();
    TList::Iterator it = x.l->insert(listAt(*x.l, p), *listAt(*x.l, v));
    r = it == x.l->end() ? -1 : ser((*it).serial);
  }
  else if(!strcmp(op, "appendrange"))
  {
    // append(values, size) with values pointing at a range of the array's own elements
    if(K != K_ARRAY || v < 0 || p < 0 || v + p > n) NOP();
    const Tracked* base = (const Tracked*)*x.a;
    x.a->append(base + v, (usize)p);
  }
  else if(!strcmp(op, "resizeown"))
  {
    if(K != K_ARRAY || p < 0 || p > 4096 || v < 0 || v >= n) NOP();
    x.a->resize((usize)p, (*x.a)[v]);
  }
  else { fprintf(stderr, "DRIVER-ERROR: unknown op %s\n", op); exit(3); }
  observe(op, i, v, p, "", r, b);
}
