// Driver for nstd::Buffer (property C08): executes op files on two real Buffer objects and logs the
// projected state after every operation.
#include "drv.h"
#define private public
#define protected public
#include <nstd/Buffer.hpp>
#undef private
#undef protected

enum { ATT = 8 };           // size of the attachable range of each variable
static Buffer* B[3] = {0, 0, 0};
static unsigned char* X[3] = {0, 0, 0};     // attachable memory: exact-size heap block of ATT bytes
static int attLen[3] = {0, 0, 0};           // currently attached prefix length of X[j] (-1: not attached)
static int attOwner[3] = {0, 0, 0};         // which ext block each variable is attached to (0 = none)

void drv_init(int, char**) {}
void drv_fini()
{
  for(int i = 1; i <= 2; ++i) { delete B[i]; B[i] = 0; free(X[i]); X[i] = 0; }
}
void drv_reset()
{
  drv_fini();
  for(int i = 1; i <= 2; ++i)
  {
    B[i] = new Buffer;
    X[i] = (unsigned char*)malloc(ATT);
    for(int k = 0; k < ATT; ++k) X[i][k] = (unsigned char)(65 + k);
    attLen[i] = -1; attOwner[i] = 0;
  }
}

static void observe(const char* op, int i, const unsigned char* d, int dn, long n, int hasRes, int res)
{
  j_begin(op);
  j_int("i", i);
  j_bytes("d", d, dn);
  j_int("n", n);
  if(hasRes) j_bool("r", res);
  fputs(",\"q\":[", g_out);
  for(int k = 1; k <= 2; ++k)
  {
    const Buffer& b = *B[k];
    const byte* p = b;                    // public view
    fputs(k == 1 ? "[" : ",[", g_out);
    for(usize x = 0; x < b.size(); ++x) fprintf(g_out, x ? ",%d" : "%d", (int)p[x]);
    fputc(']', g_out);
  }
  fputs("],\"own\":[", g_out);
  for(int k = 1; k <= 2; ++k) fprintf(g_out, k == 1 ? "%s" : ",%s", B[k]->buffer ? "true" : "false");
  fputs("],\"term\":[", g_out);
  for(int k = 1; k <= 2; ++k)
  {
    const Buffer& b = *B[k];
    // the property promises the zero byte only for a variable that owns its storage; a non-owning variable may
    // view foreign memory (attached range, or after swap() the empty sentinel inside the *other* object)
    int t = b.buffer ? (int)((const byte*)b)[b.size()] : -1;
    fprintf(g_out, k == 1 ? "%d" : ",%d", t);
  }
  // guard: bytes of attachable memory outside the attached prefix keep their value
  int guard = 1;
  for(int j = 1; j <= 2; ++j)
  {
    int from = attLen[j] < 0 ? 0 : attLen[j];
    for(int k = from; k < ATT; ++k) if(X[j][k] != (unsigned char)(65 + k)) guard = 0;
  }
  fprintf(g_out, "],\"guard\":%s", guard ? "true" : "false");
  fprintf(g_out, ",\"cap\":[%lld,%lld]", (long long)B[1]->capacity(), (long long)B[2]->capacity());
  j_end();
}

void drv_apply(const char* op)
{
  int i = (int)tok_int();
  int o = 3 - i;
  unsigned char* d = 0; int dn = 0; long n = 0; int hasRes = 0, res = 0;
  Buffer& b = *B[i];
  if(!strcmp(op, "append")) { d = tok_bytes(&dn, 0); b.append(d, dn); }
  else if(!strcmp(op, "prepend")) { d = tok_bytes(&dn, 0); b.prepend(d, dn); }
  else if(!strcmp(op, "assign")) { d = tok_bytes(&dn, 0); b.assign(d, dn); }
  else if(!strcmp(op, "ctord")) { d = tok_bytes(&dn, 0); delete B[i]; B[i] = new Buffer(d, dn); }
  else if(!strcmp(op, "resize")) { n = tok_int(); b.resize(n); }
  else if(!strcmp(op, "reserve")) { n = tok_int(); b.reserve(n); }
  else if(!strcmp(op, "rmfront")) { n = tok_int(); b.removeFront(n); }
  else if(!strcmp(op, "rmback")) { n = tok_int(); b.removeBack(n); }
  else if(!strcmp(op, "ctor")) { n = tok_int(); delete B[i]; B[i] = new Buffer((usize)n); }
  else if(!strcmp(op, "clear")) b.clear();
  else if(!strcmp(op, "free")) b.free();
  else if(!strcmp(op, "swap")) b.swap(*B[o]);
  else if(!strcmp(op, "copy")) { Buffer* c = new Buffer(*B[o]); delete B[i]; B[i] = c; }
  else if(!strcmp(op, "assignb")) b = *B[o];
  else if(!strcmp(op, "appendb")) b.append(*B[o]);
  else if(!strcmp(op, "prependb")) b.prepend(*B[o]);
  else if(!strcmp(op, "assignself")) { Buffer& self = b; b = self; }
  else if(!strcmp(op, "appendself")) b.append(b);
  else if(!strcmp(op, "prependself")) b.prepend(b);
  else if(!strcmp(op, "swapself")) b.swap(b);
  else if(!strcmp(op, "eq")) { hasRes = 1; res = (*B[1] == *B[2]) ? 1 : 0; if(res != !(*B[1] != *B[2])) res = 2; }
  else if(!strcmp(op, "attach"))
  {
    n = tok_int();
    // a variable attaches to its own range X[i]; if the *other* variable currently views X[i] (after a swap)
    // the range is re-used only when free, otherwise the other block is taken
    int j = i;
    for(int k = 1; k <= 2; ++k)
      if(k != i && !B[k]->buffer && B[k]->bufferStart >= X[j] && B[k]->bufferStart <= X[j] + ATT && attLen[j] >= 0) j = 3 - j;
    for(int k = 1; k <= 2; ++k)
      if(k != i && !B[k]->buffer && B[k]->bufferStart >= X[j] && B[k]->bufferStart <= X[j] + ATT && attLen[j] >= 0) j = 0;
    if(j == 0) { observe("nop", i, d, dn, n, 0, 0); return; }
    for(int k = 0; k < ATT; ++k) X[j][k] = (unsigned char)(65 + k);
    attLen[j] = (int)n;
    b.attach(X[j], (usize)n);
  }
  else { fprintf(stderr, "DRIVER-ERROR: unknown op %s\n", op); exit(3); }
  // an attachable block that no variable views any more is no longer "attached": all of it is guarded again
  for(int j = 1; j <= 2; ++j)
  {
    int used = 0;
    for(int k = 1; k <= 2; ++k)
      if(!B[k]->buffer && B[k]->bufferStart >= X[j] && B[k]->bufferStart <= X[j] + ATT) used = 1;
    if(!used && attLen[j] >= 0)
    {
      attLen[j] = -1;
      for(int k = 0; k < ATT; ++k) X[j][k] = (unsigned char)(65 + k);
    }
  }
  observe(op, i, d ? d : (const unsigned char*)"", dn, n, hasRes, res);
  free(d);
}
