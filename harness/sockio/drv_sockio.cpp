// Driver for the extra X06: Socket stream / datagram I/O (src/Socket/Socket.cpp, POSIX branch) on REAL loopback sockets.
//
// TCP endpoints 1..4: connection c (1, 2) has the endpoints A = 2c-1 (connect side) and B = 2c (accept side).
// UDP sockets 1..3.  All ports are chosen by the kernel (bind to port 0 on 127.0.0.1, read back with getSockName).
//
// Payload: the byte a TCP endpoint e sends at stream offset p is  Byte(e, p) = B((p + 1021 * e) % 4096),
// B(q) = (q % 256 + 7 * (q / 256)) % 256  (period 4096, so that the same pattern can be mapped over a huge virtual
// region without using memory: a 2 MiB memfd holding B mapped 4098 times back to back).  Only offsets are tracked.
// UDP datagram id (1, 2, ...) from socket u, byte i:  D(u, id, i) = (i * 13 + id * 29 + u * 101) % 251.
//
// The driver NEVER judges: it logs what the calls returned (+ a projection of the received bytes: first bytes, index of
// the first byte that is not the pattern at the driver's receive offset; for datagrams the id of the sent datagram the
// received bytes are equal to).  It refuses (event "skip") calls that could block forever on a blocking socket.
//
// Ops:  conn c nbA nbB early | send e n | recv e max [min] | sendhuge e size | recvhuge e size | close e | shutwr e |
//       recvmin2 e n1 n2 extra delay close | drain e | opt kind idx which val | uopen u bind nb | usendto u v n | urecv u max | usendtohuge u v size |
//       urecvhuge u size | uclose u
#include "drv.h"
#include <errno.h>
#include <fcntl.h>
#include <poll.h>
#include <time.h>
#include <pthread.h>
#include <sys/mman.h>
#include <sys/socket.h>
#include <netinet/in.h>
#include <netinet/tcp.h>
#include <nstd/Socket/Socket.hpp>

enum { NE = 4, NU = 3, MAXDG = 240, HEAD = 24, BLOCK_SAFE = 150000 };
static const long long PERIOD = 4096, CHUNK = 2 << 20;
static const long long HUGE_SPAN = (1LL << 33) + 2 * (2LL << 20);

static Socket* ep[NE + 1];
static int isopen_[NE + 1], nb[NE + 1], wrc[NE + 1], eofseen[NE + 1], smallbuf[NE + 1];
static long long dsent[NE + 1], drcvd[NE + 1];
static Socket* us[NU + 1];
static int unb[NU + 1], uport[NU + 1], uopen_[NU + 1];
struct Dg { int from, to; long n; int got; int sport; };
static Dg dg[MAXDG + 1]; static int ndg = 0;
static long g_reset_line = 0;
static unsigned char* hugeSrc = 0;      // read-only periodic pattern, HUGE_SPAN bytes of address space
static unsigned char* hugeDst = 0;      // writable, untouched (MAP_NORESERVE)
static unsigned char* drainBuf = 0;

static int peerOf(int e) { return ((e - 1) ^ 1) + 1; }
static int Bq(long long q) { return (int)((q % 256 + 7 * (q / 256)) % 256); }
static int ByteAt(int e, long long p) { return Bq((p + 1021LL * e) % PERIOD); }
static int DAt(int u, int id, long long i) { return (int)((i * 13 + id * 29LL + u * 101LL) % 251); }
static long long now_ms() { struct timespec ts; clock_gettime(CLOCK_MONOTONIC, &ts); return ts.tv_sec * 1000LL + ts.tv_nsec / 1000000; }
static void ev_begin(const char* op) { j_begin(op); j_int("ln", g_lineno - g_reset_line); }
static void die(const char* m) { fprintf(stderr, "DRIVER-ERROR: %s (errno %d)\n", m, errno); exit(3); }

static void huge_init()
{
  if(hugeSrc) return;
  int fd = memfd_create("x06pattern", MFD_CLOEXEC);
  if(fd < 0 || ftruncate(fd, CHUNK) != 0) die("memfd");
  unsigned char* p = (unsigned char*)mmap(0, CHUNK, PROT_READ | PROT_WRITE, MAP_SHARED, fd, 0);
  if(p == MAP_FAILED) die("mmap pattern");
  for(long long i = 0; i < CHUNK; ++i) p[i] = (unsigned char)Bq(i % PERIOD);
  munmap(p, CHUNK);
  hugeSrc = (unsigned char*)mmap(0, HUGE_SPAN, PROT_NONE, MAP_PRIVATE | MAP_ANONYMOUS | MAP_NORESERVE, -1, 0);
  if(hugeSrc == MAP_FAILED) die("reserve");
  for(long long o = 0; o < HUGE_SPAN; o += CHUNK)
    if(mmap(hugeSrc + o, CHUNK, PROT_READ, MAP_SHARED | MAP_FIXED, fd, 0) == MAP_FAILED) die("map pattern chunk");
  close(fd);
  hugeDst = (unsigned char*)mmap(0, HUGE_SPAN, PROT_READ | PROT_WRITE, MAP_PRIVATE | MAP_ANONYMOUS | MAP_NORESERVE, -1, 0);
  if(hugeDst == MAP_FAILED) die("mmap dst");
}

void drv_init(int, char**)
{
  for(int e = 0; e <= NE; ++e) ep[e] = 0;
  for(int u = 0; u <= NU; ++u) us[u] = 0;
  drainBuf = (unsigned char*)malloc(1 << 20);
}
static void destroy_all()
{
  for(int e = 1; e <= NE; ++e) { delete ep[e]; ep[e] = 0; isopen_[e] = nb[e] = wrc[e] = eofseen[e] = smallbuf[e] = 0; dsent[e] = drcvd[e] = 0; }
  for(int u = 1; u <= NU; ++u) { delete us[u]; us[u] = 0; unb[u] = uport[u] = uopen_[u] = 0; }
  ndg = 0;
}
void drv_fini() { destroy_all(); free(drainBuf); drainBuf = 0; }
void drv_reset() { destroy_all(); g_reset_line = g_lineno; }

static int fdOf(Socket* s) { return (int)s->getFileDescriptor(); }
static int wait_fd(int fd, short what, int ms)
{
  struct pollfd p; p.fd = fd; p.events = what; p.revents = 0;
  int rc = ::poll(&p, 1, ms);
  return rc > 0 ? p.revents : 0;
}
// the blocking mode the guards rely on is the descriptor's REAL one (fcntl), never what the library call claimed
static int real_nb(Socket* s) { if(!s || !s->isOpen()) return 0; int fl = fcntl(fdOf(s), F_GETFL); return fl >= 0 && (fl & O_NONBLOCK); }
static void log_size(long long size) { j_int("hi", size >> 16); j_int("lo", size & 0xffff); }
static void log_head(const unsigned char* b, long long r)
{
  j_bytes("head", b, r < 0 ? 0 : (r < HEAD ? r : HEAD));
}
static long long first_mismatch(const unsigned char* b, long long r, int sender, long long off)
{
  for(long long i = 0; i < r; ++i) if(b[i] != ByteAt(sender, off + i)) return i;
  return -1;
}
static void skip(const char* why) { ev_begin("skip"); j_str("why", why); j_end(); }

// ---- TCP ---------------------------------------------------------------------------------------------------------
static void op_conn()
{
  int c = (int)tok_int(), nbA = (int)tok_int(), nbB = (int)tok_int(), early = tok_more() ? (int)tok_int() : 0;
  if(c < 1 || c > NE / 2) die("bad connection index");
  int a = 2 * c - 1, b = 2 * c;
  for(int e = a; e <= b; ++e) { delete ep[e]; ep[e] = new Socket; isopen_[e] = nb[e] = wrc[e] = eofseen[e] = smallbuf[e] = 0; dsent[e] = drcvd[e] = 0; }
  Socket lis;
  uint32 lip = 0, aip = 0, ip1 = 0, ip2 = 0, ip3 = 0, ip4 = 0; uint16 lport = 0, aport = 0, p1 = 0, p2 = 0, p3 = 0, p4 = 0;
  bool ok = lis.open() && lis.setReuseAddress() && lis.bind(Socket::loopbackAddress, 0) && lis.listen() && lis.getSockName(lip, lport);
  bool okA = ok && ep[a]->open();
  if(okA && nbA && early) { okA = ep[a]->setNonBlocking(); nb[a] = real_nb(ep[a]); }
  bool okC = okA && ep[a]->connect(Socket::loopbackAddress, lport);
  if(okC && nb[a]) okC = (wait_fd(fdOf(ep[a]), POLLOUT, 8000) & POLLOUT) != 0 && ep[a]->getAndResetErrorStatus() == 0;
  bool okB = okC && (wait_fd(fdOf(&lis), POLLIN, 8000) & POLLIN) && lis.accept(*ep[b], aip, aport);
  bool okN = okB;
  if(okB && nbA && !early) { okN = ep[a]->setNonBlocking() && okN; nb[a] = real_nb(ep[a]); }
  if(okB && nbB) { okN = ep[b]->setNonBlocking() && okN; nb[b] = real_nb(ep[b]); }
  bool okG = okB && ep[a]->getSockName(ip1, p1) && ep[a]->getPeerName(ip2, p2) && ep[b]->getSockName(ip3, p3) && ep[b]->getPeerName(ip4, p4);
  if(okB) isopen_[a] = isopen_[b] = 1;
  ev_begin("conn"); j_int("c", c); j_bool("nbA", nbA); j_bool("nbB", nbB); j_bool("ok", ok && okA && okC && okB && okN && okG);
  j_int("lip", lip); j_int("lport", lport); j_int("aip", aip); j_int("aport", aport);
  j_int("asip", ip1); j_int("asport", p1); j_int("apip", ip2); j_int("apport", p2);
  j_int("bsip", ip3); j_int("bsport", p3); j_int("bpip", ip4); j_int("bpport", p4);
  j_bool("aopen", ep[a]->isOpen()); j_bool("bopen", ep[b]->isOpen());
  j_end();
}

static int blocking_send_unsafe(int e, long long n)
{
  int p = peerOf(e);
  if(nb[e] || !isopen_[e]) return 0;
  if(smallbuf[e] || smallbuf[p]) return 1;
  return dsent[e] - drcvd[p] + n > BLOCK_SAFE && isopen_[p];
}
static int blocking_recv_unsafe(int e, long long need)
{
  int p = peerOf(e);
  if(nb[e] || !isopen_[e]) return 0;
  if(wrc[p] || !isopen_[p]) return 0;
  return dsent[p] - drcvd[e] < (need < 1 ? 1 : need);
}

static void op_send(int huge)
{
  int e = (int)tok_int(); long long n = tok_ll();
  if(e < 1 || e > NE || !ep[e]) { skip("no such endpoint"); return; }
  if(!huge && n > (1 << 22)) die("send: size beyond the driver's limit");
  if(huge && !nb[e] && isopen_[e]) { skip("huge send on a blocking socket"); return; }
  if(blocking_send_unsafe(e, n)) { skip("blocking send could block forever"); return; }
  unsigned char* buf; const unsigned char* data;
  if(huge)
  {
    huge_init();
    if(n > (1LL << 33)) die("sendhuge: size beyond the mapped region");
    buf = 0; data = hugeSrc + (dsent[e] + 1021LL * e) % PERIOD;
  }
  else
  {
    buf = (unsigned char*)malloc(n ? n : 1);           // exact size: ASan sees an over-read
    for(long long i = 0; i < n; ++i) buf[i] = (unsigned char)ByteAt(e, dsent[e] + i);
    data = buf;
  }
  Socket::setLastError(7777);
  ssize r = ep[e]->send(data, (usize)n);
  int err = Socket::getLastError();
  ev_begin(huge ? "sendhuge" : "send"); j_int("e", e);
  if(huge) log_size(n); else j_int("n", n);
  j_int("off", dsent[e]); j_int("r", r); j_int("err", err); j_end();
  if(r > 0) dsent[e] += r;
  free(buf);
}

static void note_recv(int e, ssize r, long long maxSize)
{
  int p = peerOf(e);
  if(r > 0) drcvd[e] += r;
  else if(r == 0 && maxSize > 0 && (wrc[p] || !isopen_[p])) { eofseen[e] = 1; drcvd[e] = dsent[p]; }
}
static void log_recv(const char* op, int e, long long maxSize, long long minSize, int huge, const unsigned char* buf, ssize r, int err)
{
  ev_begin(op); j_int("e", e);
  if(huge) log_size(maxSize); else j_int("max", maxSize);
  j_int("min", minSize); j_int("off", drcvd[e]); j_int("r", r); j_int("err", err);
  j_int("mis", r > 0 ? first_mismatch(buf, r, peerOf(e), drcvd[e]) : -1);
  log_head(buf, r);
  j_end();
}
static void op_recv(int huge)
{
  int e = (int)tok_int(); long long maxSize = tok_ll(); long long minSize = (!huge && tok_more()) ? tok_ll() : 0;
  if(e < 1 || e > NE || !ep[e]) { skip("no such endpoint"); return; }
  if(!huge && maxSize > (1 << 22)) die("recv: size beyond the driver's limit");
  if(minSize > maxSize) die("recv: minSize > maxSize");
  if(blocking_recv_unsafe(e, minSize)) { skip("blocking recv could block forever"); return; }
  unsigned char* buf;
  if(huge) { huge_init(); if(maxSize > (1LL << 33)) die("recvhuge: size beyond the mapped region"); buf = hugeDst; }
  else { buf = (unsigned char*)malloc(maxSize ? maxSize : 1); memset(buf, 0xEE, maxSize ? maxSize : 1); }
  Socket::setLastError(7777);
  ssize r = ep[e]->recv(buf, (usize)maxSize, (usize)minSize);
  int err = Socket::getLastError();
  log_recv(huge ? "recvhuge" : "recv", e, maxSize, minSize, huge, buf, r, err);
  note_recv(e, r, maxSize);
  if(huge) { if(r > 0) madvise(hugeDst, ((size_t)r + 4095) & ~(size_t)4095, MADV_DONTNEED); }
  else free(buf);
}


// recv(data, maxSize, minSize) whose minSize is reached only by data that arrives WHILE the call is in progress: a helper
// thread sends n1 bytes on the peer, waits <delay> ms, then sends n2 more bytes or (closeit) closes the peer instead.
// minSize = (bytes outstanding before) + n1 + n2, maxSize = minSize + extra.  Events: the helper's send calls (they all
// completed before a blocking recv can have returned; for a non-blocking recv the order is harmless), then close, then recv.
struct Min2 { int p; long long n1, n2; int delay, closeit; int nsend; long long soff[64], sn[64]; ssize sr[64]; int serr[64]; };
static void min2_send(Min2* m, long long n)
{
  int p = m->p;
  while(n > 0 && m->nsend < 64)
  {
    unsigned char* buf = (unsigned char*)malloc(n);
    for(long long i = 0; i < n; ++i) buf[i] = (unsigned char)ByteAt(p, dsent[p] + i);
    Socket::setLastError(7777);
    ssize r = ep[p]->send(buf, (usize)n);
    int k = m->nsend++;
    m->soff[k] = dsent[p]; m->sn[k] = n; m->sr[k] = r; m->serr[k] = Socket::getLastError();
    free(buf);
    if(r > 0) { dsent[p] += r; n -= r; }
    else if(r < 0 && m->serr[k] == 0) wait_fd(fdOf(ep[p]), POLLOUT, 1000);
    else break;
  }
}
static void* min2_main(void* a)
{
  Min2* m = (Min2*)a;
  min2_send(m, m->n1);
  usleep((useconds_t)m->delay * 1000);
  if(m->closeit) { ep[m->p]->close(); }
  else min2_send(m, m->n2);
  return 0;
}
static void op_recvmin2()
{
  int e = (int)tok_int(); long long n1 = tok_ll(), n2 = tok_ll(), extra = tok_ll(); int delay = (int)tok_int(), closeit = (int)tok_int();
  if(e < 1 || e > NE || !ep[e]) { skip("no such endpoint"); return; }
  int p = peerOf(e);
  if(!isopen_[e] || !isopen_[p] || wrc[p] || smallbuf[e] || smallbuf[p] || n1 < 1 || n2 < 1 || delay > 500 ||
     dsent[p] - drcvd[e] + n1 + n2 > BLOCK_SAFE) { skip("recvmin2: precondition"); return; }
  long long minSize = dsent[p] - drcvd[e] + n1 + n2, maxSize = minSize + extra;
  Min2 m; memset(&m, 0, sizeof(m)); m.p = p; m.n1 = n1; m.n2 = n2; m.delay = delay; m.closeit = closeit;
  unsigned char* buf = (unsigned char*)malloc(maxSize); memset(buf, 0xEE, maxSize);
  long long off0 = drcvd[e];
  pthread_t th; pthread_create(&th, 0, min2_main, &m);
  Socket::setLastError(7777);
  ssize r = ep[e]->recv(buf, (usize)maxSize, (usize)minSize);
  int err = Socket::getLastError();
  pthread_join(th, 0);
  for(int k = 0; k < m.nsend; ++k)
  { ev_begin("send"); j_int("e", p); j_int("n", m.sn[k]); j_int("off", m.soff[k]); j_int("r", m.sr[k]); j_int("err", m.serr[k]); j_end(); }
  if(closeit) { isopen_[p] = 0; wrc[p] = 1; ev_begin("close"); j_int("e", p); j_int("rc", 0); j_bool("isopen", ep[p]->isOpen()); j_end(); }
  (void)off0;
  log_recv("recv", e, maxSize, minSize, 0, buf, r, err);
  note_recv(e, r, maxSize);
  free(buf);
}

static void op_drain()
{
  int e = (int)tok_int();
  if(e < 1 || e > NE || !ep[e]) { skip("no such endpoint"); return; }
  int p = peerOf(e);
  long long deadline = now_ms() + 8000, total = 0; int failed = 0;
  while(isopen_[e] && !failed && now_ms() < deadline)
  {
    int wantEof = (wrc[p] || !isopen_[p]) && !eofseen[e];
    if(drcvd[e] >= dsent[p] && !wantEof) break;
    int rev = wait_fd(fdOf(ep[e]), POLLIN, 200);
    if(!(rev & (POLLIN | POLLHUP | POLLERR))) continue;
    Socket::setLastError(7777);
    ssize r = ep[e]->recv(drainBuf, 1 << 20);
    int err = Socket::getLastError();
    log_recv("recv", e, 1 << 20, 0, 0, drainBuf, r, err);
    note_recv(e, r, 1 << 20);
    if(r > 0) { total += r; deadline = now_ms() + 8000; alarm(g_op_timeout); }     // the deadline is for progress
    else if(r == 0) break;
    else if(err != 0) failed = 1;
  }
  ev_begin("drained"); j_int("e", e); j_bool("complete", drcvd[e] >= dsent[p]); j_bool("eof", eofseen[e]); j_bool("failed", failed);
  j_int("n", total); j_end();
}

static void op_close(int sh)
{
  int e = (int)tok_int();
  if(e < 1 || e > NE || !ep[e]) { skip("no such endpoint"); return; }
  int rc = 0;
  if(sh) { rc = ::shutdown(fdOf(ep[e]), SHUT_WR); if(rc == 0) wrc[e] = 1; }
  else { ep[e]->close(); isopen_[e] = 0; wrc[e] = 1; }
  ev_begin(sh ? "shutwr" : "close"); j_int("e", e); j_int("rc", rc); j_bool("isopen", ep[e]->isOpen()); j_end();
}

// ---- options -----------------------------------------------------------------------------------------------------
static void op_opt()
{
  int kind = (int)tok_int(), idx = (int)tok_int(), which = (int)tok_int(); int val = (int)tok_int();
  Socket* s = kind == 0 ? (idx >= 1 && idx <= NE ? ep[idx] : 0) : (idx >= 1 && idx <= NU ? us[idx] : 0);
  if(!s) { skip("opt: no such socket"); return; }
  bool r = false; int level = SOL_SOCKET, name = 0;
  switch(which)
  {
  case 0: r = s->setNonBlocking(); break;
  case 1: r = s->setNoDelay(); level = IPPROTO_TCP; name = TCP_NODELAY; break;
  case 2: r = s->setKeepAlive(); name = SO_KEEPALIVE; break;
  case 3: r = s->setReuseAddress(); name = SO_REUSEADDR; break;
  case 4: r = s->setSendBufferSize(val); name = SO_SNDBUF; break;
  case 5: r = s->setReceiveBufferSize(val); name = SO_RCVBUF; break;
  case 6: r = s->setBroadcast(); name = SO_BROADCAST; break;
  default: die("opt: unknown option");
  }
  int got = -1; usize len = sizeof(got); bool gok = true;
  if(which != 0) gok = s->getSockOpt(level, name, &got, len);
  int fl = s->isOpen() ? fcntl(fdOf(s), F_GETFL) : 0;
  if(which == 0) { if(kind == 0) nb[idx] = real_nb(s); else unb[idx] = real_nb(s); }
  if((which == 4 || which == 5) && kind == 0 && val < 65536) smallbuf[idx] = 1;
  ev_begin("opt"); j_int("kind", kind); j_int("idx", idx); j_int("which", which); j_int("val", val); j_bool("isopen", s->isOpen());
  j_bool("r", r); j_bool("gok", gok); j_int("got", got); j_int("len", (long long)len); j_bool("nbfl", (fl & O_NONBLOCK) != 0); j_end();
}

// ---- UDP ---------------------------------------------------------------------------------------------------------
static void op_uopen()
{
  int u = (int)tok_int(), bindit = (int)tok_int(), nbf = (int)tok_int();
  if(u < 1 || u > NU) die("uopen: bad index");
  delete us[u]; us[u] = new Socket; unb[u] = 0; uport[u] = 0;
  for(int k = 1; k <= ndg; ++k) if(dg[k].to == u) dg[k].got = 1;       // what was in flight to the old socket is gone
  bool ok = us[u]->open(Socket::udpProtocol);
  uint32 ip = 0; uint16 port = 0;
  if(ok && bindit) ok = us[u]->bind(Socket::loopbackAddress, 0) && us[u]->getSockName(ip, port);
  if(ok && nbf) { ok = us[u]->setNonBlocking(); unb[u] = real_nb(us[u]); }
  uport[u] = port; uopen_[u] = ok;
  ev_begin("uopen"); j_int("u", u); j_bool("bound", bindit); j_bool("nb", nbf); j_bool("ok", ok); j_int("ip", ip); j_int("port", port);
  j_bool("isopen", us[u]->isOpen()); j_end();
}
static void op_usendto(int huge)
{
  int u = (int)tok_int(), v = (int)tok_int(); long long n = tok_ll();
  if(u < 1 || u > NU || v < 1 || v > NU || !us[u]) { skip("usendto: no such socket"); return; }
  if(uport[v] == 0 || !uopen_[u]) { skip("usendto: destination has no port / sender closed"); return; }
  if(ndg == MAXDG) { skip("usendto: datagram table full"); return; }
  int id = ++ndg;
  unsigned char* buf = 0; const unsigned char* data;
  if(huge) { huge_init(); if(n > (1LL << 33)) die("usendtohuge: size beyond the mapped region"); data = hugeSrc; }
  else
  {
    if(n > (1 << 20)) die("usendto: size beyond the driver's limit");
    buf = (unsigned char*)malloc(n ? n : 1);
    for(long long i = 0; i < n; ++i) buf[i] = (unsigned char)DAt(u, id, i);
    data = buf;
  }
  Socket::setLastError(7777);
  ssize r = us[u]->sendTo(data, (usize)n, Socket::loopbackAddress, (uint16)uport[v]);
  int err = Socket::getLastError();
  if(uport[u] == 0) { uint32 ip; uint16 port; if(us[u]->getSockName(ip, port)) uport[u] = port; }
  dg[id].from = u; dg[id].to = v; dg[id].n = (huge || r != (ssize)n) ? -1 : (long)n; dg[id].got = 0; dg[id].sport = uport[u];   // n = -1: nothing was sent
  ev_begin(huge ? "usendtohuge" : "usendto"); j_int("u", u); j_int("v", v);
  if(huge) log_size(n); else j_int("n", n);
  j_int("id", id); j_int("r", r); j_int("err", err); j_int("port", uport[u]); j_end();
  free(buf);
}
static int dg_matches(int id, const unsigned char* b, long long r, long long maxSize)
{
  const Dg& d = dg[id];
  if(d.n < 0) return 0;
  if(!(r == d.n || (r == maxSize && r < d.n))) return 0;
  for(long long i = 0; i < r; ++i) if(b[i] != DAt(d.from, id, i)) return 0;
  return 1;
}
static void op_urecv(int huge)
{
  int u = (int)tok_int(); long long maxSize = tok_ll();
  if(u < 1 || u > NU || !us[u]) { skip("urecv: no such socket"); return; }
  if(us[u]->isOpen() && !real_nb(us[u]) && !(wait_fd(fdOf(us[u]), POLLIN, 20) & POLLIN)) { skip("blocking recvFrom could block forever"); return; }
  unsigned char* buf;
  if(huge) { huge_init(); if(maxSize > (1LL << 33)) die("urecvhuge: size beyond the mapped region"); buf = hugeDst; }
  else { if(maxSize > (1 << 20)) die("urecv: size beyond the driver's limit"); buf = (unsigned char*)malloc(maxSize ? maxSize : 1); }
  uint32 ip = 0; uint16 port = 0;
  Socket::setLastError(7777);
  ssize r = us[u]->recvFrom(buf, (usize)maxSize, ip, port);
  int err = Socket::getLastError();
  int fromu = 0, id = 0;
  if(r >= 0)
  {
    // the sent datagram these bytes are: prefer one addressed to u that was not received yet, from the reported address
    for(int pass = 0; pass < 4 && !id; ++pass)
      for(int k = 1; k <= ndg && !id; ++k)
        if(dg_matches(k, buf, r, maxSize) && (pass == 3 || (dg[k].to == u && (pass == 2 || (!dg[k].got && (pass == 1 || dg[k].sport == port)))))) id = k;
    if(id) { dg[id].got = 1; fromu = dg[id].from; }
  }
  ev_begin(huge ? "urecvhuge" : "urecv"); j_int("u", u);
  if(huge) log_size(maxSize); else j_int("max", maxSize);
  j_int("r", r); j_int("err", err); j_int("ip", r >= 0 ? ip : 0); j_int("port", r >= 0 ? port : 0); j_int("fromu", fromu); j_int("id", id);
  log_head(buf, r); j_end();
  if(huge) { if(r > 0) madvise(hugeDst, ((size_t)r + 4095) & ~(size_t)4095, MADV_DONTNEED); }
  else free(buf);
}
static void op_uclose()
{
  int u = (int)tok_int();
  if(u < 1 || u > NU || !us[u]) { skip("uclose: no such socket"); return; }
  for(int k = 1; k <= ndg; ++k) if(dg[k].to == u) dg[k].got = 1;
  us[u]->close(); uopen_[u] = 0; uport[u] = 0;   // (datagrams keep their own source port, see Dg::sport)
  ev_begin("uclose"); j_int("u", u); j_bool("isopen", us[u]->isOpen()); j_end();
}

void drv_apply(const char* op)
{
  if(!strcmp(op, "conn")) op_conn();
  else if(!strcmp(op, "send")) op_send(0);
  else if(!strcmp(op, "sendhuge")) op_send(1);
  else if(!strcmp(op, "recv")) op_recv(0);
  else if(!strcmp(op, "recvhuge")) op_recv(1);
  else if(!strcmp(op, "drain")) op_drain();
  else if(!strcmp(op, "recvmin2")) op_recvmin2();
  else if(!strcmp(op, "close")) op_close(0);
  else if(!strcmp(op, "shutwr")) op_close(1);
  else if(!strcmp(op, "opt")) op_opt();
  else if(!strcmp(op, "uopen")) op_uopen();
  else if(!strcmp(op, "usendto")) op_usendto(0);
  else if(!strcmp(op, "usendtohuge")) op_usendto(1);
  else if(!strcmp(op, "urecv")) op_urecv(0);
  else if(!strcmp(op, "urecvhuge")) op_urecv(1);
  else if(!strcmp(op, "uclose")) op_uclose();
  else { fprintf(stderr, "DRIVER-ERROR: unknown op %s\n", op); exit(3); }
}
