// Driver for nstd Sha256 (property C17): executes op files on ONE real Sha256 object per execution (so that
// finalize()/reset() reuse is exercised) and logs lengths and digests only.  Message and key content is
// Stream(seed, n) of spec/text/Sha256.tla: x0 = seed mod 65537, x' = (75 x + 74) mod 65537, byte = x' mod 256.
//
//   upd <seed> <off> <len>                update() with bytes [off, off+len) of Stream(seed)
//   fin                                   finalize(), logs the digest as sixteen 16-bit big-endian words
//   rst                                   reset()
//   hash <seed> <len>                     static Sha256::hash()
//   hmac <kseed> <klen> <seed> <len>      static Sha256::hmac()
//   poke <l3> <l2> <l1> <l0>              long-message mode by state injection: the byte counter is set to the value
//                                         with these 16-bit limbs (a multiple of 64, nothing buffered), the chaining
//                                         value stays what it is; counter and chaining value are logged
//   zeros <mib>                           long-message mode for real: <mib> MiB of zero bytes through update() in 1 MiB
//                                         pieces; the counter and chaining value reached are logged
// (after poke/zeros the trace specification continues the message from the logged chaining value: padding and the
// 64-bit length field for byte counts that a model checker cannot hash its way to)
// Every input range handed to the library is an exact-size heap block (ASan sees over-reads).
#include "drv.h"
#include <pthread.h>
#define private public
#include <nstd/Crypto/Sha256.hpp>
#undef private

static Sha256* H = 0;

static unsigned char* stream(long seed, long off, long len)
{
  unsigned char* p = (unsigned char*)malloc(len ? len : 1);
  unsigned long x = (unsigned long)(seed % 65537);
  for(long i = 0; i < off + len; ++i)
  {
    x = (75 * x + 74) % 65537;
    if(i >= off) p[i - off] = (unsigned char)(x % 256);
  }
  return p;
}

static void j_digest(const byte (&d)[Sha256::digestSize])
{
  j_arr_begin("d");
  for(int i = 0; i < 16; ++i) j_arr_int((long long)d[2 * i] * 256 + d[2 * i + 1]);
  j_arr_end();
}

static void j_mid(Sha256* h)
{
  j_arr_begin("cnt");
  for(int i = 3; i >= 0; --i) j_arr_int((long long)((h->count >> (16 * i)) & 0xffff));
  j_arr_end();
  j_arr_begin("S");
  for(int i = 0; i < 8; ++i) { j_arr_int((long long)(h->state[i] >> 16)); j_arr_int((long long)(h->state[i] & 0xffff)); }
  j_arr_end();
}

// par: two threads, each with its OWN hasher and its own message, hash at the same time (the algorithm must not share state
// between objects); each thread hashes its message <reps> times and reports whether every digest was the same
struct ParJob { long seed, len, reps; byte d[Sha256::digestSize]; int same; pthread_barrier_t* bar; };
static void* par_main(void* a)
{
  ParJob* j = (ParJob*)a;
  unsigned char* p = stream(j->seed, 0, j->len);
  Sha256 h;
  j->same = 1;
  pthread_barrier_wait(j->bar);
  for(long r = 0; r < j->reps; ++r)
  {
    byte d[Sha256::digestSize];
    h.update(p, (usize)(j->len / 2)); h.update(p + j->len / 2, (usize)(j->len - j->len / 2));
    h.finalize(d);
    if(r == 0) memcpy(j->d, d, sizeof(d)); else if(memcmp(j->d, d, sizeof(d))) j->same = 0;
  }
  free(p);
  return 0;
}

void drv_init(int, char**) { g_op_timeout = 3000; }   // "zeros 4096" hashes 4 GiB under ASan: minutes on a loaded machine
void drv_fini() { delete H; H = 0; }
void drv_reset() { drv_fini(); H = new Sha256; }

void drv_apply(const char* op)
{
  if(!strcmp(op, "upd"))
  {
    long seed = tok_int(), off = tok_int(), len = tok_int();
    unsigned char* p = stream(seed, off, len);
    H->update(p, (usize)len);
    free(p);
    j_begin(op); j_int("seed", seed); j_int("off", off); j_int("len", len); j_end();
  }
  else if(!strcmp(op, "fin"))
  {
    // the digest buffer is an exact-size heap block too
    byte (*d)[Sha256::digestSize] = (byte (*)[Sha256::digestSize])malloc(Sha256::digestSize);
    memset(*d, 0xEE, Sha256::digestSize);
    H->finalize(*d);
    j_begin(op); j_digest(*d); j_end();
    free(d);
  }
  else if(!strcmp(op, "rst"))
  {
    H->reset();
    j_begin(op); j_end();
  }
  else if(!strcmp(op, "poke"))
  {
    unsigned long long c = 0;
    for(int i = 0; i < 4; ++i) c = (c << 16) | (unsigned long long)(tok_int() & 0xffff);
    H->count = c;
    j_begin(op); j_mid(H); j_end();
  }
  else if(!strcmp(op, "zeros"))
  {
    long mib = tok_int();
    unsigned char* z = (unsigned char*)calloc(1 << 20, 1);
    for(long i = 0; i < mib; ++i) H->update(z, 1 << 20);
    free(z);
    j_begin(op); j_int("mib", mib); j_mid(H); j_end();
  }
  else if(!strcmp(op, "par"))
  {
    ParJob a, b; pthread_barrier_t bar; pthread_t ta, tb;
    a.seed = tok_int(); a.len = tok_int(); b.seed = tok_int(); b.len = tok_int(); a.reps = b.reps = tok_int();
    pthread_barrier_init(&bar, 0, 2); a.bar = b.bar = &bar;
    pthread_create(&ta, 0, par_main, &a); pthread_create(&tb, 0, par_main, &b);
    pthread_join(ta, 0); pthread_join(tb, 0);
    pthread_barrier_destroy(&bar);
    j_begin(op); j_int("sa", a.seed); j_int("la", a.len); j_int("sb", b.seed); j_int("lb", b.len);
    j_arr_begin("da"); for(int i = 0; i < 16; ++i) j_arr_int((long long)a.d[2 * i] * 256 + a.d[2 * i + 1]); j_arr_end();
    j_arr_begin("db"); for(int i = 0; i < 16; ++i) j_arr_int((long long)b.d[2 * i] * 256 + b.d[2 * i + 1]); j_arr_end();
    j_bool("same", a.same && b.same);
    j_end();
  }
  else if(!strcmp(op, "hash"))
  {
    long seed = tok_int(), len = tok_int();
    unsigned char* p = stream(seed, 0, len);
    byte d[Sha256::digestSize];
    Sha256::hash(p, (usize)len, d);
    free(p);
    j_begin(op); j_int("seed", seed); j_int("len", len); j_digest(d); j_end();
  }
  else if(!strcmp(op, "hmac"))
  {
    long kseed = tok_int(), klen = tok_int(), seed = tok_int(), len = tok_int();
    unsigned char* k = stream(kseed, 0, klen);
    unsigned char* p = stream(seed, 0, len);
    // optional 5th argument: 1 = the result array IS the first 32 bytes of the message buffer (in-place MAC), 2 = its last 32 bytes
    long inplace = tok_more() ? tok_int() : 0;
    byte d[Sha256::digestSize];
    if(inplace && len >= (long)Sha256::digestSize)
    {
      byte (&res)[Sha256::digestSize] = *(byte (*)[Sha256::digestSize])(inplace == 1 ? p : p + len - Sha256::digestSize);
      Sha256::hmac(k, (usize)klen, p, (usize)len, res);
      memcpy(d, res, Sha256::digestSize);
    }
    else
      Sha256::hmac(k, (usize)klen, p, (usize)len, d);
    free(p); free(k);
    j_begin(op); j_int("kseed", kseed); j_int("klen", klen); j_int("seed", seed); j_int("len", len); j_digest(d); j_end();
  }
  else { fprintf(stderr, "DRIVER-ERROR: unknown op %s\n", op); exit(3); }
}
