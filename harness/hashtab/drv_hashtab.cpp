// Driver for nstd::HashMap, nstd::HashSet and nstd::PoolMap (property C02; also logs what C04/C05 need).
// Two container variables; class and bucket count of a variable are chosen by "new <i> <hashmap|hashset|poolmap> <capacity>"
// (capacity < 0: default constructor, i.e. 500 buckets).  Keys are Tracked (hash(Tracked) = value, so "% capacity"
// collisions are controlled), values are Tracked (HashMap) / NoCopy (PoolMap); a HashSet entry's value is its key.
// Every other op line is "<op> <i> [<k> [<v> [<p>]]]".  After every op ONE JSON line is written:
//   op, i, k, v, p, kd     the request ("nop" when the class of variable i does not offer the operation or a documented
//                          precondition does not hold -- the request is then NOT executed)
//   r                      serial of the entry designated by the returned iterator/reference, -1 = end(), -2 = no result
//   b                      integer result (contains, operator== : 1/0; 2 when == and != / contains and find disagree), -2 = none
//   kind, c, sz, em, bk, cap   both variables: class, entries [key value, value value, value serial, address id] in iteration
//                          order, size(), isEmpty(), serials met iterating backwards from end(), bucket count given at "new"
//   its                    iterators kept since the insertion of still-living entries, re-dereferenced now:
//                          [serial at insertion, serial designated now, 1 if &value unchanged]
//   lt                     instance registry counters (J_LIFETIME)
//   C04: every entry tuple has a fifth component, the serial of the stored key instance (= the value serial for a HashSet);
//        ov[j] = instances an empty container object of variable j's class owns by itself (measured at start-up: its end
//        sentinel), ld = held key/value instances that the registry does not list as alive, q = live instances at the
//        quiescent point of "fini" (everything destroyed), -1 otherwise
// "fini <i>" destroys both variables, records the number of live instances, and recreates them as default HashMaps.
// HashMap / PoolMap::front() const / back() const were declared with the KEY type as their result (they did not compile for the
// pool map of this driver and returned a reference to a temporary where the value converts to the key); repaired, and called
// by the front / back operations next to the non-const overloads.
#include "drv.h"
#include "tracked.h"
#include <nstd/HashMap.hpp>
#include <nstd/HashSet.hpp>
#include <nstd/PoolMap.hpp>

typedef HashMap<Tracked, Tracked> TMap;
typedef HashSet<Tracked> TSet;
typedef PoolMap<Tracked, NoCopy> TPool;
// serials are logged through ser(): anything that is not a serial handed out in this execution (garbage read through a
// stale pointer) becomes -9 so that the trace stays within TLC's 32-bit integers
static long ser(long s) { return s > 0 && s < trk_next ? s : -9; }
enum { K_MAP = 0, K_SET = 1, K_POOL = 2 };
static const char* kindName[3] = {"hashmap", "hashset", "poolmap"};

struct Var { int kind; long cap; TMap* m; TSet* s; TPool* p; };
static Var V[3];

struct Kept { int kind; TMap::Iterator mi; TSet::Iterator si; TPool::Iterator pi; long serial; const void* addr; };
enum { KEPT_MAX = 256 };
static Kept kept[KEPT_MAX];
static int nkept = 0;

static void destroyVar(int i)
{
  delete V[i].m; delete V[i].s; delete V[i].p;
  V[i].m = 0; V[i].s = 0; V[i].p = 0;
}
static void createVar(int i, int kind, long cap)
{
  V[i].kind = kind; V[i].cap = cap;
  if(kind == K_MAP) V[i].m = cap < 0 ? new TMap : new TMap((usize)cap);
  else if(kind == K_SET) V[i].s = cap < 0 ? new TSet : new TSet((usize)cap);
  else V[i].p = cap < 0 ? new TPool : new TPool((usize)cap);
}
static long g_ov[3] = {0, 0, 0};     // instances owned by an empty container of each class
static long g_ld = 0, g_q = -1;
static int aliveT(const Tracked& t) { return t.magic == 0x600DF00Du && t.serial > 0 && t.serial < trk_next && trk_state[t.serial] == 1; }
static int aliveN(const NoCopy& t) { return t.magic == 0x600DF00Du && t.serial > 0 && t.serial < trk_next && trk_state[t.serial] == 1; }
void drv_init(int, char**)
{
  g_op_timeout = 8; V[1].m = V[2].m = 0; V[1].s = V[2].s = 0; V[1].p = V[2].p = 0; trk_reset_registry();
  for(int k = 0; k < 3; ++k)
  { // measure what an empty container object owns (created and destroyed again: the balance must return to zero)
    long before = trk_live();
    createVar(1, k, 3);
    g_ov[k] = trk_live() - before;
    destroyVar(1);
    if(trk_live() != before) g_ov[k] = -1000;
  }
  trk_reset_registry();
}
void drv_fini() { destroyVar(1); destroyVar(2); nkept = 0; }
void drv_reset()
{
  drv_fini();
  trk_reset_registry();
  addr_reset();
  createVar(1, K_MAP, -1);
  createVar(2, K_MAP, -1);
}

static long varSize(int i)
{
  return V[i].kind == K_MAP ? (long)V[i].m->size() : V[i].kind == K_SET ? (long)V[i].s->size() : (long)V[i].p->size();
}
static TMap::Iterator mapAt(TMap& c, long p) { TMap::Iterator it = c.begin(); while(p-- > 0) ++it; return it; }
static TSet::Iterator setAt(TSet& c, long p) { TSet::Iterator it = c.begin(); while(p-- > 0) ++it; return it; }
static TPool::Iterator poolAt(TPool& c, long p) { TPool::Iterator it = c.begin(); while(p-- > 0) ++it; return it; }

static void keepMap(const TMap::Iterator& it, TMap& c)
{
  if(nkept >= KEPT_MAX || it == c.end()) return;
  for(int k = 0; k < nkept; ++k) if(kept[k].kind == K_MAP && kept[k].mi == it) return;
  const Tracked& t = *it;
  kept[nkept].kind = K_MAP; kept[nkept].mi = it; kept[nkept].serial = ser(t.serial); kept[nkept].addr = &t; ++nkept;
}
static void keepSet(const TSet::Iterator& it, TSet& c)
{
  if(nkept >= KEPT_MAX || it == c.end()) return;
  for(int k = 0; k < nkept; ++k) if(kept[k].kind == K_SET && kept[k].si == it) return;
  const Tracked& t = *it;
  kept[nkept].kind = K_SET; kept[nkept].si = it; kept[nkept].serial = ser(t.serial); kept[nkept].addr = &t; ++nkept;
}
static void keepPool(const TPool::Iterator& it, TPool& c)
{
  if(nkept >= KEPT_MAX || it == c.end()) return;
  for(int k = 0; k < nkept; ++k) if(kept[k].kind == K_POOL && kept[k].pi == it) return;
  const NoCopy& t = *it;
  kept[nkept].kind = K_POOL; kept[nkept].pi = it; kept[nkept].serial = ser(t.serial); kept[nkept].addr = &t; ++nkept;
}

// ---- projection -----------------------------------------------------------------------------------------------
enum { PROJ_MAX = 4096 };
static long liveSerial[2 * PROJ_MAX];
static int nlive = 0;

static void emitEntry(long cnt, int k, int v, long serial, const void* a, long kserial, int alive)
{
  fprintf(g_out, cnt ? ",[%d,%d,%ld,%d,%ld]" : "[%d,%d,%ld,%d,%ld]", k, v, serial, addr_id(a), kserial);
  if(!alive) ++g_ld;
  if(nlive < 2 * PROJ_MAX) liveSerial[nlive++] = serial;
}
static void projectVar(int i)
{
  long n = varSize(i), bound = n + 4, cnt = 0;
  fputc('[', g_out);
  if(V[i].kind == K_MAP)
    for(TMap::Iterator it = V[i].m->begin(), end = V[i].m->end(); it != end && cnt < bound; ++it, ++cnt)
    { const Tracked& t = *it; emitEntry(cnt, it.key().value, t.value, ser(t.serial), &t, ser(it.key().serial), aliveT(t) && aliveT(it.key())); }
  else if(V[i].kind == K_SET)
    for(TSet::Iterator it = V[i].s->begin(), end = V[i].s->end(); it != end && cnt < bound; ++it, ++cnt)
    { const Tracked& t = *it; emitEntry(cnt, t.value, t.value, ser(t.serial), &t, ser(t.serial), aliveT(t)); }
  else
    for(TPool::Iterator it = V[i].p->begin(), end = V[i].p->end(); it != end && cnt < bound; ++it, ++cnt)
    { const NoCopy& t = *it; emitEntry(cnt, it.key().value, t.value, ser(t.serial), &t, ser(it.key().serial), aliveN(t) && aliveT(it.key())); }
  fputc(']', g_out);
}
static void backwardVar(int i)
{
  long n = varSize(i), bound = n + 4, cnt = 0;
  fputc('[', g_out);
  if(V[i].kind == K_MAP)
  {
    TMap::Iterator it = V[i].m->end(), begin = V[i].m->begin();
    while(it != begin && cnt < bound) { --it; fprintf(g_out, cnt ? ",%ld" : "%ld", ser((*it).serial)); ++cnt; }
  }
  else if(V[i].kind == K_SET)
  {
    TSet::Iterator it = V[i].s->end(), begin = V[i].s->begin();
    while(it != begin && cnt < bound) { --it; fprintf(g_out, cnt ? ",%ld" : "%ld", ser((*it).serial)); ++cnt; }
  }
  else
  {
    TPool::Iterator it = V[i].p->end(), begin = V[i].p->begin();
    while(it != begin && cnt < bound) { --it; fprintf(g_out, cnt ? ",%ld" : "%ld", ser((*it).serial)); ++cnt; }
  }
  fputc(']', g_out);
}
static int varEmpty(int i)
{
  return V[i].kind == K_MAP ? V[i].m->isEmpty() : V[i].kind == K_SET ? V[i].s->isEmpty() : V[i].p->isEmpty();
}

static void observe(const char* op, int i, long k, long v, long p, const char* kd, long r, long b)
{
  j_begin(op);
  j_int("i", i); j_int("k", k); j_int("v", v); j_int("p", p); j_str("kd", kd); j_int("r", r); j_int("b", b);
  fprintf(g_out, ",\"kind\":[\"%s\",\"%s\"]", kindName[V[1].kind], kindName[V[2].kind]);
  nlive = 0; g_ld = 0;
  fputs(",\"c\":[", g_out); projectVar(1); fputc(',', g_out); projectVar(2); fputc(']', g_out);
  fprintf(g_out, ",\"sz\":[%ld,%ld]", varSize(1), varSize(2));
  fprintf(g_out, ",\"em\":[%d,%d]", varEmpty(1), varEmpty(2));
  fputs(",\"bk\":[", g_out); backwardVar(1); fputc(',', g_out); backwardVar(2); fputc(']', g_out);
  fprintf(g_out, ",\"cap\":[%ld,%ld]", V[1].cap, V[2].cap);
  fputs(",\"its\":[", g_out);
  int w = 0, first = 1;
  for(int x = 0; x < nkept; ++x)
  {
    int alive = 0;
    for(int y = 0; y < nlive; ++y) if(liveSerial[y] == kept[x].serial) { alive = 1; break; }
    if(!alive) continue;
    long now; const void* a;
    if(kept[x].kind == K_MAP) { const Tracked& t = *kept[x].mi; now = ser(t.serial); a = &t; }
    else if(kept[x].kind == K_SET) { const Tracked& t = *kept[x].si; now = ser(t.serial); a = &t; }
    else { const NoCopy& t = *kept[x].pi; now = ser(t.serial); a = &t; }
    fprintf(g_out, first ? "[%ld,%ld,%d]" : ",[%ld,%ld,%d]", kept[x].serial, now, a == kept[x].addr ? 1 : 0);
    first = 0;
    kept[w++] = kept[x];
  }
  nkept = w;
  fputc(']', g_out);
  fprintf(g_out, ",\"ov\":[%ld,%ld],\"ld\":%ld,\"q\":%ld", g_ov[V[1].kind], g_ov[V[2].kind], g_ld, g_q);
  g_q = -1;
  J_LIFETIME();
  j_end();
}

static int kindOf(const char* s)
{
  for(int k = 0; k < 3; ++k) if(!strcmp(s, kindName[k])) return k;
  fprintf(stderr, "DRIVER-ERROR: unknown kind %s\n", s); exit(3);
}

#define NOP() do { observe("nop", i, k, v, p, "", -2, -2); return; } while(0)
#define MAPRES(it) ((it) == x.m->end() ? -1 : ser((*(it)).serial))
#define SETRES(it) ((it) == x.s->end() ? -1 : ser((*(it)).serial))
#define POOLRES(it) ((it) == x.p->end() ? -1 : ser((*(it)).serial))

void drv_apply(const char* op)
{
  int i = (int)tok_int();
  if(i < 1 || i > 2) { fprintf(stderr, "DRIVER-ERROR: bad variable %d\n", i); exit(3); }
  int o = 3 - i;
  long k = 0, v = 0, p = 0, r = -2, b = -2;
  if(!strcmp(op, "new"))
  {
    const char* kd = tok_next();
    int kind = kindOf(kd ? kd : "");
    p = tok_more() ? tok_int() : -1;
    destroyVar(i);
    createVar(i, kind, p);
    observe(op, i, 0, 0, p, kindName[kind], -2, -2);
    return;
  }
  if(!strcmp(op, "fini"))
  { // destroy everything (lifetime balance for C04), then start again with two default HashMaps
    drv_fini();
    g_q = trk_live();
    createVar(1, K_MAP, -1);
    createVar(2, K_MAP, -1);
    observe(op, i, 0, 0, 0, "", -2, -2);
    return;
  }
  if(tok_more()) k = tok_int();
  if(tok_more()) v = tok_int();
  if(tok_more()) p = tok_int();
  Var& x = V[i];
  Var& y = V[o];
  const int K = x.kind;
  const bool same = y.kind == K;
  const long n = varSize(i);

  if(!strcmp(op, "append") || !strcmp(op, "prepend"))
  {
    const bool app = op[0] == 'a';
    if(!app && K == K_POOL) NOP();
    if(K == K_MAP)
    {
      Tracked& t = app ? x.m->append(Tracked((int)k), Tracked((int)v)) : x.m->prepend(Tracked((int)k), Tracked((int)v));
      r = ser(t.serial);
      keepMap(x.m->find(Tracked((int)k)), *x.m);
    }
    else if(K == K_SET)
    {
      if(app) x.s->append(Tracked((int)k)); else x.s->prepend(Tracked((int)k));
      keepSet(x.s->find(Tracked((int)k)), *x.s);
    }
    else
    {
      usize before = x.p->size();
      NoCopy& t = x.p->append(Tracked((int)k));
      if(x.p->size() != before) t.value = (int)v;       // a new entry: the harness gives it its value
      r = ser(t.serial);
      keepPool(x.p->find(Tracked((int)k)), *x.p);
    }
  }
  else if(!strcmp(op, "insert"))
  {
    if(p < 0 || p > n) NOP();
    if(K == K_MAP) { TMap::Iterator it = x.m->insert(mapAt(*x.m, p), Tracked((int)k), Tracked((int)v)); r = MAPRES(it); keepMap(it, *x.m); }
    else if(K == K_SET) { TSet::Iterator it = x.s->insert(setAt(*x.s, p), Tracked((int)k)); r = SETRES(it); keepSet(it, *x.s); }
    else
    {
      usize before = x.p->size();
      TPool::Iterator it = x.p->insert(poolAt(*x.p, p), Tracked((int)k));
      if(x.p->size() != before && it != x.p->end()) (*it).value = (int)v;
      r = POOLRES(it); keepPool(it, *x.p);
    }
  }
  else if(!strcmp(op, "appendall"))
  {
    if(!same || K != K_SET) NOP();
    x.s->append(*y.s);
  }
  else if(!strcmp(op, "rmall"))
  {
    if(!same || K != K_SET) NOP();
    x.s->remove(*y.s);
  }
  else if(!strcmp(op, "rmkey"))
  {
    if(K == K_MAP) x.m->remove(Tracked((int)k)); else if(K == K_SET) x.s->remove(Tracked((int)k)); else x.p->remove(Tracked((int)k));
  }
  else if(!strcmp(op, "rmat"))
  {
    if(p < 0 || p >= n) NOP();
    if(K == K_MAP) { TMap::Iterator it = x.m->remove(mapAt(*x.m, p)); r = MAPRES(it); }
    else if(K == K_SET) { TSet::Iterator it = x.s->remove(setAt(*x.s, p)); r = SETRES(it); }
    else { TPool::Iterator it = x.p->remove(poolAt(*x.p, p)); r = POOLRES(it); }
  }
  else if(!strcmp(op, "rmref"))
  {
    if(K != K_POOL || p < 0 || p >= n) NOP();
    x.p->remove(*poolAt(*x.p, p));
  }
  else if(!strcmp(op, "rmfront"))
  {
    if(n == 0) NOP();
    if(K == K_MAP) { TMap::Iterator it = x.m->removeFront(); r = MAPRES(it); }
    else if(K == K_SET) { TSet::Iterator it = x.s->removeFront(); r = SETRES(it); }
    else { TPool::Iterator it = x.p->removeFront(); r = POOLRES(it); }
  }
  else if(!strcmp(op, "rmback"))
  {
    if(n == 0) NOP();
    if(K == K_MAP) { TMap::Iterator it = x.m->removeBack(); r = MAPRES(it); }
    else if(K == K_SET) { TSet::Iterator it = x.s->removeBack(); r = SETRES(it); }
    else { TPool::Iterator it = x.p->removeBack(); r = POOLRES(it); }
  }
  else if(!strcmp(op, "clear"))
  {
    if(K == K_MAP) x.m->clear(); else if(K == K_SET) x.s->clear(); else x.p->clear();
  }
  else if(!strcmp(op, "swap"))
  {
    if(!same) NOP();
    if(K == K_MAP) x.m->swap(*y.m); else if(K == K_SET) x.s->swap(*y.s); else x.p->swap(*y.p);
    long c = x.cap; x.cap = y.cap; y.cap = c;
  }
  else if(!strcmp(op, "copy"))
  {
    if(!same || K == K_POOL) NOP();
    if(K == K_MAP) { TMap* c = new TMap(*y.m); delete x.m; x.m = c; }
    else { TSet* c = new TSet(*y.s); delete x.s; x.s = c; }
    x.cap = -1;
  }
  else if(!strcmp(op, "assign"))
  {
    if(!same || K == K_POOL) NOP();
    if(K == K_MAP) *x.m = *y.m; else *x.s = *y.s;
  }
  else if(!strcmp(op, "find"))
  {
    if(K == K_MAP) { TMap::Iterator it = x.m->find(Tracked((int)k)); r = MAPRES(it); }
    else if(K == K_SET) { TSet::Iterator it = x.s->find(Tracked((int)k)); r = SETRES(it); }
    else { TPool::Iterator it = x.p->find(Tracked((int)k)); r = POOLRES(it); }
  }
  else if(!strcmp(op, "contains"))
  {
    if(K == K_MAP) { b = x.m->contains(Tracked((int)k)) ? 1 : 0; if(b != (x.m->find(Tracked((int)k)) != x.m->end())) b = 2; }
    else if(K == K_SET) { b = x.s->contains(Tracked((int)k)) ? 1 : 0; if(b != (x.s->find(Tracked((int)k)) != x.s->end())) b = 2; }
    else { b = x.p->contains(Tracked((int)k)) ? 1 : 0; if(b != (x.p->find(Tracked((int)k)) != x.p->end())) b = 2; }
  }
  else if(!strcmp(op, "front"))
  {
    if(n == 0) NOP();
    if(K == K_MAP) r = ser(x.m->front().serial); else if(K == K_SET) r = ser(x.s->front().serial); else r = ser(x.p->front().serial);
    // the const overloads must name the same element
    { const TMap* cm = x.m; const TSet* cs = x.s; const TPool* cp = x.p;
      if(K == K_MAP ? &cm->front() != &x.m->front() : K == K_SET ? &cs->front() != &x.s->front() : &cp->front() != &x.p->front()) r = -7; }
  }
  else if(!strcmp(op, "back"))
  {
    if(n == 0) NOP();
    if(K == K_MAP) r = ser(x.m->back().serial); else if(K == K_SET) r = ser(x.s->back().serial); else r = ser(x.p->back().serial);
    { const TMap* cm = x.m; const TSet* cs = x.s; const TPool* cp = x.p;
      if(K == K_MAP ? &cm->back() != &x.m->back() : K == K_SET ? &cs->back() != &x.s->back() : &cp->back() != &x.p->back()) r = -7; }
  }
  else if(!strcmp(op, "eq"))
  {
    if(!same || K == K_POOL) NOP();
    if(K == K_MAP) { b = (*x.m == *y.m) ? 1 : 0; if(b != !(*x.m != *y.m)) b = 2; }
    else { b = (*x.s == *y.s) ? 1 : 0; if(b != !(*x.s != *y.s)) b = 2; }
  }
  // ---- operations whose argument is the container itself or one of its own entries (property C04)
  else if(!strcmp(op, "swapself"))
  {
    if(K == K_MAP) x.m->swap(*x.m); else if(K == K_SET) x.s->swap(*x.s); else x.p->swap(*x.p);
  }
  else if(!strcmp(op, "assignself"))
  {
    if(K == K_POOL) NOP();
    if(K == K_MAP) { TMap& self = *x.m; *x.m = self; } else { TSet& self = *x.s; *x.s = self; }
  }
  else if(!strcmp(op, "appendself"))
  {
    if(K != K_SET) NOP();
    x.s->append(*x.s);
  }
  else if(!strcmp(op, "rmself"))
  {
    if(K != K_SET) NOP();
    x.s->remove(*x.s);
  }
  else if(!strcmp(op, "appendown"))             // append(key of own entry p, value of own entry k)
  {
    if(K == K_POOL || p < 0 || p >= n || k < 0 || k >= n) NOP();
    if(K == K_MAP) { Tracked& t = x.m->append(mapAt(*x.m, p).key(), *mapAt(*x.m, k)); r = ser(t.serial); }
    else x.s->append(*setAt(*x.s, p));
  }
  else if(!strcmp(op, "rmkeyown"))              // remove(key of own entry p)
  {
    if(p < 0 || p >= n) NOP();
    if(K == K_MAP) x.m->remove(mapAt(*x.m, p).key());
    else if(K == K_SET) x.s->remove(*setAt(*x.s, p));
    else x.p->remove(poolAt(*x.p, p).key());
  }
  else { fprintf(stderr, "DRIVER-ERROR: unknown op %s\n", op); exit(3); }
  observe(op, i, k, v, p, "", r, b);
}
