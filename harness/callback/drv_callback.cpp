// Driver for nstd Callback (property C12): a re-entrant interpreter.  Top-level ops call the library; when the
// library invokes a harness slot, the slot logs the invocation and keeps executing the following ops of the op
// file from inside the slot until it reads "ret".
//   ops:  connect e g l k | disconnect e g l k | emit e g | ret | destroyL l | destroyE e
//         arity n   (right after reset) the signals and slots of this execution take n = 0..8 int arguments: each arity is
//                   a separate emit() overload in Callback.hpp
#define DRV_NO_MAIN
#include "drv.h"
#define private public
#define protected public
#include <nstd/Callback.hpp>
#undef private
#undef protected

enum { NE = 3, NL = 4, MAXDEPTH = 6 };
struct Lis;
struct Em;
static Lis* L[NL + 1];
static Em* E[NE + 1];
static int g_depth = 0;          // number of slot functions currently running
static int g_emits = 0;          // number of emit() calls currently on the stack
static int g_unwinding = 0;      // the execution is over: return from every slot without logging
static FILE* g_in = 0;
static int g_pending_reset = 0;
static long g_reset_line = 0;       // op-file line of the last "reset"
static void run_ops();

static void log_event(const char* op, int e, int g, int l, int k);

static int g_arity = 0;          // number of int arguments of the signals / slots of this execution (0..8)
#define ARGS0
#define ARGS1 int a0
#define ARGS2 ARGS1, int a1
#define ARGS3 ARGS2, int a2
#define ARGS4 ARGS3, int a3
#define ARGS5 ARGS4, int a4
#define ARGS6 ARGS5, int a5
#define ARGS7 ARGS6, int a6
#define ARGS8 ARGS7, int a7
#define VALS0
#define VALS1 1
#define VALS2 VALS1, 2
#define VALS3 VALS2, 3
#define VALS4 VALS3, 4
#define VALS5 VALS4, 5
#define VALS6 VALS5, 6
#define VALS7 VALS6, 7
#define VALS8 VALS7, 8
#define SUM0 0
#define SUM1 a0
#define SUM2 SUM1 + a1 * 3
#define SUM3 SUM2 + a2 * 5
#define SUM4 SUM3 + a3 * 7
#define SUM5 SUM4 + a4 * 11
#define SUM6 SUM5 + a5 * 13
#define SUM7 SUM6 + a6 * 17
#define SUM8 SUM7 + a7 * 19
static const int g_expectSum[9] = { 0, 1, 7, 22, 50, 105, 183, 302, 454 };
#define FOR_ARITIES(M) M(0) M(1) M(2) M(3) M(4) M(5) M(6) M(7) M(8)

struct Em : public Callback::Emitter
{
  int id;
#define DEF_SIG(N) void sig1_##N(ARGS##N) {} void sig2_##N(ARGS##N) {}
  FOR_ARITIES(DEF_SIG)
  void fire(int g)
  {
    int myId = id;      // the object may be destroyed by a slot: nothing of *this is touched after emit()
    (void)myId;
    switch(g_arity)
    {
#define FIRE0 case 0: if(g == 1) emit(&Em::sig1_0); else emit(&Em::sig2_0); break;
#define FIREN(N) case N: if(g == 1) emit(&Em::sig1_##N, VALS##N); else emit(&Em::sig2_##N, VALS##N); break;
    FIRE0 FIREN(1) FIREN(2) FIREN(3) FIREN(4) FIREN(5) FIREN(6) FIREN(7) FIREN(8)
    }
  }
};
struct Lis : public Callback::Listener
{
  int id;
  void enter(int k, int sum, int arity)
  {
    int myId = id;      // reading id through a dangling this-pointer is what ASan reports for a slot of a destroyed listener
    if(g_unwinding) return;
    // a slot that receives other arguments than the emitter passed is logged as an unknown slot (the trace spec rejects it)
    log_event("invoke", 0, 0, myId, sum == g_expectSum[arity] ? k : 9);
    ++g_depth;
    run_ops();
    --g_depth;
  }
#define DEF_SLOT(N) void slot1_##N(ARGS##N) { enter(1, SUM##N, N); } void slot2_##N(ARGS##N) { enter(2, SUM##N, N); }
  FOR_ARITIES(DEF_SLOT)
};

static Callback::MemberFuncPtr sigPtr(int g, int n)
{
  switch(n)
  {
#define SIGP(N) case N: return g == 1 ? Callback::MemberFuncPtr(&Em::sig1_##N) : Callback::MemberFuncPtr(&Em::sig2_##N);
  FOR_ARITIES(SIGP)
  }
  return Callback::MemberFuncPtr(&Em::sig1_0);
}
static Callback::MemberFuncPtr slotPtr(int k, int n)
{
  switch(n)
  {
#define SLOTP(N) case N: return k == 1 ? Callback::MemberFuncPtr(&Lis::slot1_##N) : Callback::MemberFuncPtr(&Lis::slot2_##N);
  FOR_ARITIES(SLOTP)
  }
  return Callback::MemberFuncPtr(&Lis::slot1_0);
}

static int lisId(const Callback::Listener* p) { for(int i = 1; i <= NL; ++i) if(L[i] == p) return i; return 0; }
static int slotId(const Callback::MemberFuncPtr& s)
{
  if(s == slotPtr(1, g_arity)) return 1;
  if(s == slotPtr(2, g_arity)) return 2;
  return 0;
}
static int sigId(const Callback::MemberFuncPtr& s)
{
  if(s == sigPtr(1, g_arity)) return 1;
  if(s == sigPtr(2, g_arity)) return 2;
  return 0;
}

// both sides' bookkeeping, read through the access override (this IS what the property talks about)
static void log_bookkeeping()
{
  fputs(",\"eb\":[", g_out);
  for(int e = 1; e <= NE; ++e)
  {
    fputs(e == 1 ? "[" : ",[", g_out);
    for(int g = 1; g <= 2; ++g)
    {
      fputs(g == 1 ? "[" : ",[", g_out);
      if(E[e])
      {
        Callback::MemberFuncPtr sig = sigPtr(g, g_arity);
        Map<Callback::MemberFuncPtr, Callback::Emitter::SignalData>::Iterator it = E[e]->signalData.find(sig);
        if(it != E[e]->signalData.end())
        {
          int first = 1;
          for(List<Callback::Emitter::Slot>::Iterator i = it->slots.begin(); i != it->slots.end(); ++i)
          {
            fprintf(g_out, "%s[%d,%d,%d]", first ? "" : ",", lisId(i->receiver), slotId(i->slot), (int)i->state);
            first = 0;
          }
        }
      }
      fputc(']', g_out);
    }
    fputc(']', g_out);
  }
  fputs("],\"lb\":[", g_out);
  for(int l = 1; l <= NL; ++l)
  {
    fputs(l == 1 ? "[" : ",[", g_out);
    for(int e = 1; e <= NE; ++e)
    {
      fputs(e == 1 ? "[" : ",[", g_out);
      if(L[l] && E[e])
      {
        Map<Callback::Emitter*, List<Callback::Listener::Signal> >::Iterator it = L[l]->slotData.find(E[e]);
        if(it != L[l]->slotData.end())
        {
          int first = 1;
          for(List<Callback::Listener::Signal>::Iterator i = it->begin(); i != it->end(); ++i)
          {
            fprintf(g_out, "%s[%d,%d]", first ? "" : ",", sigId(i->signal), slotId(i->slot));
            first = 0;
          }
        }
      }
      fputc(']', g_out);
    }
    fputc(']', g_out);
  }
  fputc(']', g_out);
}

static void log_event(const char* op, int e, int g, int l, int k)
{
  j_begin(op); j_int("ln", g_lineno - g_reset_line); j_int("e", e); j_int("g", g); j_int("l", l); j_int("k", k);
  int quiescent = g_depth == 0 && g_emits == 0;
  j_bool("q", quiescent);
  fputs(",\"ae\":[", g_out); for(int i = 1; i <= NE; ++i) fprintf(g_out, "%s%s", i > 1 ? "," : "", E[i] ? "true" : "false");
  fputs("],\"al\":[", g_out); for(int i = 1; i <= NL; ++i) fprintf(g_out, "%s%s", i > 1 ? "," : "", L[i] ? "true" : "false");
  fputc(']', g_out);
  if(quiescent) log_bookkeeping(); else fputs(",\"eb\":[],\"lb\":[]", g_out);
  j_end();
}

static void destroy_all()
{
  for(int i = 1; i <= NL; ++i) { delete L[i]; L[i] = 0; }
  for(int i = 1; i <= NE; ++i) { delete E[i]; E[i] = 0; }
}
static void reset_all()
{
  destroy_all();
  for(int i = 1; i <= NL; ++i) { L[i] = new Lis; L[i]->id = i; }
  for(int i = 1; i <= NE; ++i) { E[i] = new Em; E[i]->id = i; }
}

static void apply(const char* op)
{
  if(!strcmp(op, "connect") || !strcmp(op, "disconnect"))
  {
    int e = (int)tok_int(), g = (int)tok_int(), l = (int)tok_int(), k = (int)tok_int();
    if(e < 1 || e > NE || l < 1 || l > NL || !E[e] || !L[l]) { log_event("nop", 0, 0, 0, 0); return; }
    switch(g_arity)
    {
#define CONN(N) case N: \
      if(op[0] == 'c') { if(g == 1 && k == 1) Callback::connect(E[e], &Em::sig1_##N, L[l], &Lis::slot1_##N); else if(g == 1) Callback::connect(E[e], &Em::sig1_##N, L[l], &Lis::slot2_##N); \
                         else if(k == 1) Callback::connect(E[e], &Em::sig2_##N, L[l], &Lis::slot1_##N); else Callback::connect(E[e], &Em::sig2_##N, L[l], &Lis::slot2_##N); } \
      else { if(g == 1 && k == 1) Callback::disconnect(E[e], &Em::sig1_##N, L[l], &Lis::slot1_##N); else if(g == 1) Callback::disconnect(E[e], &Em::sig1_##N, L[l], &Lis::slot2_##N); \
             else if(k == 1) Callback::disconnect(E[e], &Em::sig2_##N, L[l], &Lis::slot1_##N); else Callback::disconnect(E[e], &Em::sig2_##N, L[l], &Lis::slot2_##N); } \
      break;
    FOR_ARITIES(CONN)
    }
    log_event(op, e, g, l, k);
  }
  else if(!strcmp(op, "arity"))
  {
    int n = (int)tok_int();
    if(n >= 0 && n <= 8 && g_depth == 0 && g_emits == 0) g_arity = n;
    log_event("nop", 0, 0, 0, 0);
  }
  else if(!strcmp(op, "emit"))
  {
    int e = (int)tok_int(), g = (int)tok_int();
    if(e < 1 || e > NE || !E[e] || g_emits >= MAXDEPTH) { log_event("nop", 0, 0, 0, 0); return; }
    ++g_emits;
    log_event("emit", e, g, 0, 0);
    E[e]->fire(g);
    --g_emits;
    if(!g_unwinding) log_event("endemit", e, g, 0, 0);
  }
  else if(!strcmp(op, "destroyL"))
  {
    int l = (int)tok_int();
    if(l < 1 || l > NL || !L[l]) { log_event("nop", 0, 0, 0, 0); return; }
    Lis* p = L[l]; L[l] = 0; delete p;
    log_event("destroyL", 0, 0, l, 0);
  }
  else if(!strcmp(op, "destroyE"))
  {
    int e = (int)tok_int();
    if(e < 1 || e > NE || !E[e]) { log_event("nop", 0, 0, 0, 0); return; }
    Em* p = E[e]; E[e] = 0; delete p;
    log_event("destroyE", e, 0, 0, 0);
  }
  else { fprintf(stderr, "DRIVER-ERROR: unknown op %s\n", op); exit(3); }
}

// executes ops until "ret" (inside a slot), "reset"/EOF (end of the execution: unwind)
static void run_ops()
{
  while(!g_unwinding)
  {
    if(!fgets(g_line, sizeof(g_line), g_in)) { g_unwinding = 1; g_pending_reset = 0; return; }
    ++g_lineno;
    g_cur = g_line;
    const char* op = tok_next();
    if(!op || op[0] == '#') continue;
    alarm(g_op_timeout);
    if(!strcmp(op, "reset")) { g_unwinding = 1; g_pending_reset = 1; g_reset_line = g_lineno; return; }
    if(!strcmp(op, "ret!") && g_depth == 0)
    {
      // strict form used for model-generated behaviours: the model expects a slot to be running here, i.e. the
      // library failed to invoke a slot; logged as "ret" so that the trace specification rejects it
      log_event("ret", 0, 0, 0, 0);
      continue;
    }
    if(!strcmp(op, "ret") || !strcmp(op, "ret!"))
    {
      if(g_depth > 0) { log_event("ret", 0, 0, 0, 0); return; }
      log_event("nop", 0, 0, 0, 0);      // no slot is running: the op file expected one that the library did not invoke
      continue;
    }
    apply(op);
  }
}

int main(int argc, char** argv)
{
  if(argc < 3) return 2;
  g_in = fopen(argv[1], "r");
  g_out = fopen(argv[2], "w");
  if(!g_in || !g_out) { perror("open"); return 2; }
  setvbuf(g_out, 0, _IOLBF, 1 << 16);
  signal(SIGALRM, drv_on_alarm);
  // the file starts with "reset"
  g_pending_reset = 0;
  for(;;)
  {
    g_unwinding = 0; g_depth = 0; g_emits = 0;
    run_ops();                      // returns at reset / EOF with everything unwound
    if(!g_pending_reset && feof(g_in)) break;
    if(g_pending_reset)
    {
      g_pending_reset = 0;
      reset_all();
      g_arity = 0;
      fputs("{\"op\":\"reset\"}\n", g_out);
    }
  }
  destroy_all();
  fclose(g_out);
  return 0;
}
