// Driver for nstd::Variant (property C07): executes op files on three real heap-allocated Variant objects and logs,
// after every operation, the operation with its arguments and for every variable a canonical projection
// (type tag + value tree as nested JSON arrays), getType/isNull, all to* conversions and the equality matrix.
//
// Value literals in op files (whitespace separated tokens, prefix notation):
//   n | b0 b1 | i<n> int | u<n> uint | l<n> int64 | m<n> uint64 | d<m> double m/2 | s<hex> String
//   L<k> v1..vk  List<Variant> | A<k> v1..vk  Array<Variant> | M<k> x<hex> v1 .. x<hex> vk  HashMap<String,Variant>
// The projection only uses the const interface of Variant (it must not trigger the copy-on-write paths).
#include "drv.h"
#include <math.h>
#include <nstd/Variant.hpp>

enum { NVAR = 3 };
static Variant* B[NVAR + 1] = {0, 0, 0, 0};

// ------------------------------------------------------------------ literals (independent of Variant)
struct Lit
{
  char kind;                  // n b i u l m d s L A M
  long long n;
  unsigned char* s; int sn;   // string bytes
  Lit** kids; unsigned char** keys; int* keyn; int nk;
};
static Lit* lit_parse()
{
  const char* t = tok_next();
  if(!t) { fprintf(stderr, "DRIVER-ERROR: missing literal at line %ld\n", g_lineno); exit(3); }
  Lit* l = (Lit*)calloc(1, sizeof(Lit));
  l->kind = t[0];
  switch(t[0])
  {
  case 'n': break;
  case 'b': case 'i': case 'u': case 'l': case 'm': case 'd': l->n = strtoll(t + 1, 0, 10); break;
  case 's':
    l->sn = (int)strlen(t + 1) / 2;
    l->s = (unsigned char*)malloc(l->sn + 1);
    for(int i = 0; i < l->sn; ++i) l->s[i] = (unsigned char)(hexv(t[1 + 2 * i]) * 16 + hexv(t[2 + 2 * i]));
    break;
  case 'L': case 'A': case 'M':
    l->nk = (int)strtol(t + 1, 0, 10);
    l->kids = (Lit**)calloc(l->nk + 1, sizeof(Lit*));
    l->keys = (unsigned char**)calloc(l->nk + 1, sizeof(unsigned char*));
    l->keyn = (int*)calloc(l->nk + 1, sizeof(int));
    for(int k = 0; k < l->nk; ++k)
    {
      if(t[0] == 'M') l->keys[k] = tok_bytes(&l->keyn[k], 0);
      l->kids[k] = lit_parse();
    }
    break;
  default: fprintf(stderr, "DRIVER-ERROR: bad literal %s at line %ld\n", t, g_lineno); exit(3);
  }
  return l;
}
static void lit_free(Lit* l)
{
  if(!l) return;
  for(int k = 0; k < l->nk; ++k) { lit_free(l->kids[k]); free(l->keys[k]); }
  free(l->kids); free(l->keys); free(l->keyn); free(l->s); free(l);
}
static void put_bytes(const unsigned char* p, long n)
{
  fputc('[', g_out);
  for(long i = 0; i < n; ++i) fprintf(g_out, i ? ",%d" : "%d", (int)p[i]);
  fputc(']', g_out);
}
static void lit_json(const Lit* l)
{
  switch(l->kind)
  {
  case 'n': fputs("[\"null\"]", g_out); break;
  case 'b': fprintf(g_out, "[\"bool\",%s]", l->n ? "true" : "false"); break;
  case 'i': fprintf(g_out, "[\"int\",%lld]", l->n); break;
  case 'u': fprintf(g_out, "[\"uint\",%lld]", l->n); break;
  case 'l': fprintf(g_out, "[\"i64\",%lld]", l->n); break;
  case 'm': fprintf(g_out, "[\"u64\",%lld]", l->n); break;
  case 'd': fprintf(g_out, "[\"dbl\",%lld]", l->n); break;
  case 's': fputs("[\"str\",", g_out); put_bytes(l->s, l->sn); fputc(']', g_out); break;
  default:
    fprintf(g_out, "[\"%s\",[", l->kind == 'L' ? "list" : l->kind == 'A' ? "arr" : "map");
    for(int k = 0; k < l->nk; ++k)
    {
      if(k) fputc(',', g_out);
      if(l->kind == 'M') { fputc('[', g_out); put_bytes(l->keys[k], l->keyn[k]); fputc(',', g_out); }
      lit_json(l->kids[k]);
      if(l->kind == 'M') fputc(']', g_out);
    }
    fputs("]]", g_out);
  }
}
static String mkstr(const unsigned char* p, int n) { return String((const char*)p, (usize)n); }
static void lit_build(const Lit* l, Variant& out);
static void build_list(const Lit* l, List<Variant>& r) { for(int k = 0; k < l->nk; ++k) { Variant e; lit_build(l->kids[k], e); r.append(e); } }
static void build_arr(const Lit* l, Array<Variant>& r) { for(int k = 0; k < l->nk; ++k) { Variant e; lit_build(l->kids[k], e); r.append(e); } }
static void build_map(const Lit* l, HashMap<String, Variant>& r)
{ for(int k = 0; k < l->nk; ++k) { Variant e; lit_build(l->kids[k], e); r.append(mkstr(l->keys[k], l->keyn[k]), e); } }
// mode 0: construct (new Variant(T)), mode 1: operator=(T) on *target
static Variant* lit_apply(const Lit* l, Variant* target)
{
  switch(l->kind)
  {
  case 'n': if(!target) return new Variant(); *target = Variant(); return target;
  case 'b': if(!target) return new Variant(l->n != 0); *target = (l->n != 0); return target;
  case 'i': if(!target) return new Variant((int)l->n); *target = (int)l->n; return target;
  case 'u': if(!target) return new Variant((uint)l->n); *target = (uint)l->n; return target;
  case 'l': if(!target) return new Variant((int64)l->n); *target = (int64)l->n; return target;
  case 'm': if(!target) return new Variant((uint64)l->n); *target = (uint64)l->n; return target;
  case 'd': if(!target) return new Variant((double)l->n / 2.); *target = (double)l->n / 2.; return target;
  case 's': { String s = mkstr(l->s, l->sn); if(!target) return new Variant(s); *target = s; return target; }
  case 'L': { List<Variant> c; build_list(l, c); if(!target) return new Variant(c); *target = c; return target; }
  case 'A': { Array<Variant> c; build_arr(l, c); if(!target) return new Variant(c); *target = c; return target; }
  default: { HashMap<String, Variant> c; build_map(l, c); if(!target) return new Variant(c); *target = c; return target; }
  }
}
static void lit_build(const Lit* l, Variant& out) { lit_apply(l, &out); }

// ------------------------------------------------------------------ projection of a real Variant (const interface only)
static const long long LIM = 2147483647LL;
static void put_num(const char* tag, long long v, int big)
{
  if(big || v > LIM || v < -LIM) fprintf(g_out, "[\"big\",\"%s\"]", tag); else fprintf(g_out, "[\"%s\",%lld]", tag, v);
}
static void project(const Variant& v)
{
  switch(v.getType())
  {
  case Variant::nullType: fputs("[\"null\"]", g_out); break;
  case Variant::boolType: fprintf(g_out, "[\"bool\",%s]", v.toBool() ? "true" : "false"); break;
  case Variant::intType: put_num("int", v.toInt(), 0); break;
  case Variant::uintType: put_num("uint", v.toUInt(), 0); break;
  case Variant::int64Type: put_num("i64", v.toInt64(), 0); break;
  case Variant::uint64Type: { uint64 x = v.toUInt64(); put_num("u64", (long long)x, x > (uint64)LIM); break; }
  case Variant::doubleType:
    {
      double d = v.toDouble() * 2.;
      int ok = d == floor(d) && d <= (double)LIM && d >= -(double)LIM;
      put_num("dbl", ok ? (long long)d : 0, !ok);
      break;
    }
  case Variant::stringType: { String s = v.toString(); fputs("[\"str\",", g_out); put_bytes((const unsigned char*)(const char*)s, (long)s.length()); fputc(']', g_out); break; }
  case Variant::listType:
    {
      const List<Variant>& l = v.toList();
      fputs("[\"list\",[", g_out);
      int first = 1;
      for(List<Variant>::Iterator i = l.begin(), end = l.end(); i != end; ++i) { if(!first) fputc(',', g_out); first = 0; project(*i); }
      fputs("]]", g_out);
      break;
    }
  case Variant::arrayType:
    {
      const Array<Variant>& a = v.toArray();
      fputs("[\"arr\",[", g_out);
      for(usize k = 0; k < a.size(); ++k) { if(k) fputc(',', g_out); project(((const Variant*)a)[k]); }
      fputs("]]", g_out);
      break;
    }
  case Variant::mapType:
    {
      const HashMap<String, Variant>& m = v.toMap();
      fputs("[\"map\",[", g_out);
      int first = 1;
      for(HashMap<String, Variant>::Iterator i = m.begin(), end = m.end(); i != end; ++i)
      {
        if(!first) fputc(',', g_out);
        first = 0;
        fputc('[', g_out);
        put_bytes((const unsigned char*)(const char*)i.key(), (long)i.key().length());
        fputc(',', g_out);
        project(*i);
        fputc(']', g_out);
      }
      fputs("]]", g_out);
      break;
    }
  default: fputs("[\"badtype\"]", g_out);
  }
}
static const char* type_name(Variant::Type t)
{
  switch(t)
  {
  case Variant::nullType: return "null"; case Variant::boolType: return "bool"; case Variant::doubleType: return "dbl";
  case Variant::intType: return "int"; case Variant::uintType: return "uint"; case Variant::int64Type: return "i64";
  case Variant::uint64Type: return "u64"; case Variant::mapType: return "map"; case Variant::listType: return "list";
  case Variant::arrayType: return "arr"; case Variant::stringType: return "str";
  }
  return "badtype";
}
static void put_res(long long v, int big) { if(big || v > LIM || v < -LIM) fputs(",[0,0]", g_out); else fprintf(g_out, ",[1,%lld]", v); }
static void conversions(const Variant& v)
{
  fprintf(g_out, "[%d", v.toBool() ? 1 : 0);
  put_res(v.toInt(), 0);
  put_res(v.toUInt(), 0);
  put_res(v.toInt64(), 0);
  { uint64 x = v.toUInt64(); put_res((long long)x, x > (uint64)LIM); }
  {
    double d = v.toDouble() * 2.;
    int ok = d == floor(d) && d <= (double)LIM && d >= -(double)LIM;
    put_res(ok ? (long long)d : 0, !ok);
  }
  { String s = v.toString(); fputc(',', g_out); put_bytes((const unsigned char*)(const char*)s, (long)s.length()); }
  fputc(']', g_out);
}

static void observe(const char* op, int i, int j, const Lit* x, const unsigned char* key, int keyn, int r)
{
  j_begin(op);
  j_int("i", i);
  j_int("j", j);
  j_key("x"); if(x) lit_json(x); else fputs("[\"null\"]", g_out);
  j_bytes("k", key, keyn);
  j_bool("r", r);
  j_key("v");
  for(int a = 1; a <= NVAR; ++a) { fputc(a == 1 ? '[' : ',', g_out); project(*B[a]); }
  fputs("],\"ty\":[", g_out);
  for(int a = 1; a <= NVAR; ++a) fprintf(g_out, a == 1 ? "\"%s\"" : ",\"%s\"", type_name(B[a]->getType()));
  fputs("],\"nul\":[", g_out);
  for(int a = 1; a <= NVAR; ++a) fprintf(g_out, a == 1 ? "%s" : ",%s", B[a]->isNull() ? "true" : "false");
  fputs("],\"cv\":[", g_out);
  for(int a = 1; a <= NVAR; ++a) { if(a > 1) fputc(',', g_out); conversions(*B[a]); }
  fputs("],\"eq\":[", g_out);
  int neok = 1;
  for(int a = 1; a <= NVAR; ++a)
  {
    fputs(a == 1 ? "[" : ",[", g_out);
    for(int b = 1; b <= NVAR; ++b)
    {
      const Variant& va = *B[a]; const Variant& vb = *B[b];
      bool e = va == vb;
      if((va != vb) == e) neok = 0;
      fprintf(g_out, b == 1 ? "%s" : ",%s", e ? "true" : "false");
    }
    fputc(']', g_out);
  }
  fprintf(g_out, "],\"neok\":%s", neok ? "true" : "false");
  j_end();
}

void drv_init(int, char**) {}
void drv_fini() { for(int i = 1; i <= NVAR; ++i) { delete B[i]; B[i] = 0; } }
void drv_reset() { drv_fini(); for(int i = 1; i <= NVAR; ++i) B[i] = new Variant; }

// mutable access (+ one mutation) on one Variant object (a variable, or an element reached through a mutable accessor)
static int mutate(const char* op, Variant& v, const Variant* val, const unsigned char* key, int keyn)
{
  if(!strcmp(op, "mlist")) v.toList();
  else if(!strcmp(op, "marr")) v.toArray();
  else if(!strcmp(op, "mmap")) v.toMap();
  else if(!strcmp(op, "mstr")) v.toString();
  else if(!strcmp(op, "applist")) v.toList().append(*val);
  else if(!strcmp(op, "apparr")) v.toArray().append(*val);
  else if(!strcmp(op, "mapset")) v.toMap().append(mkstr(key, keyn), *val);
  else if(!strcmp(op, "appstr")) v.toString().append(mkstr(key, keyn));
  else return 0;
  return 1;
}
static int needs_val(const char* op) { return !strcmp(op, "applist") || !strcmp(op, "apparr") || !strcmp(op, "mapset"); }
static int needs_key(const char* op) { return !strcmp(op, "mapset") || !strcmp(op, "appstr"); }

// smoke values outside the modelled numeric domain: only sanitizers and "equal to its own copy" are checked
static int smoke(int k)
{
  Variant v;
  switch(k)
  {
  case 0: v = (int64)(-9223372036854775807LL - 1); break;
  case 1: v = (int64)9223372036854775807LL; break;
  case 2: v = (uint64)18446744073709551615ULL; break;
  case 3: v = (uint)4294967295U; break;
  case 4: v = (int)(-2147483647 - 1); break;
  case 5: v = 1e300; break;
  case 6: v = 0.1; break;
  case 7: v = -1e-300; break;
  case 8: v = String("18446744073709551615"); break;
  case 9: v = String("-9223372036854775808"); break;
  case 10: v = String("1e5"); break;
  default: v = 12345.678; break;
  }
  Variant c(v);
  const Variant& cv = v;
  volatile unsigned long long sink = 0;
  sink += cv.toBool(); sink += (unsigned long long)cv.toInt(); sink += cv.toUInt(); sink += (unsigned long long)cv.toInt64(); sink += cv.toUInt64();
  sink += cv.toDouble() > 0.; sink += (unsigned long long)cv.toString().length();
  int ok = (v == c) && !(v != c);
  Variant t(c);
  t.toString();                       // number -> text through the mutable accessor
  ok = ok && (v == c) && t.getType() == Variant::stringType;
  (void)sink;
  return ok;
}

// wide <kind> <l0> <l1> <l2> <l3>: a 64-bit (kind i64 / u64) or 32-bit (i32 / u32) integer given as 16-bit limbs, least
// significant first, goes through a temporary Variant: reported type, decimal text (const and mutable accessor), the
// 64-bit conversions and equality with a copy.  Values beyond TLC's 32-bit integers; judged by VariantWideTrace.
static void put_limbs4(const char* name, unsigned long long v)
{
  j_arr_begin(name);
  for(int k = 0; k < 4; ++k) j_arr_int((long long)((v >> (16 * k)) & 0xffff));
  j_arr_end();
}
static void do_wide()
{
  const char* kind = tok_next();
  char kd[8]; strncpy(kd, kind, 7); kd[7] = 0;
  unsigned long long x = 0;
  for(int k = 0; k < 4; ++k) x |= (unsigned long long)(tok_int() & 0xffff) << (16 * k);
  Variant v;
  if(!strcmp(kd, "i64")) v = (int64)x;
  else if(!strcmp(kd, "u64")) v = (uint64)x;
  else if(!strcmp(kd, "i32")) { v = (int)(uint32)x; x = (unsigned long long)(long long)(int)(uint32)x; }
  else { v = (uint)(uint32)x; x = (uint32)x; }
  const Variant& cv = v;
  Variant c(v);
  const char* ty = cv.getType() == Variant::int64Type ? "i64" : cv.getType() == Variant::uint64Type ? "u64" :
                   cv.getType() == Variant::intType ? "i32" : cv.getType() == Variant::uintType ? "u32" : "other";
  String txt = cv.toString();
  int eq = (v == c) && !(v != c) && (c == v);
  Variant t(c);
  String mtxt = t.toString();          // the mutable accessor turns the copy into a string
  int eq2 = (v == c) && t.getType() == Variant::stringType;
  j_begin("wide"); j_str("kind", kd); put_limbs4("v", x); j_str("ty", ty);
  j_bytes("txt", (const unsigned char*)(const char*)txt, (long)txt.length());
  j_bytes("mtxt", (const unsigned char*)(const char*)mtxt, (long)mtxt.length());
  put_limbs4("i64", (unsigned long long)cv.toInt64()); put_limbs4("u64", (unsigned long long)cv.toUInt64());
  // toDouble: every converted integer is an integer-valued double below 2^65; logged exactly as sign + magnitude (5 limbs)
  double d = cv.toDouble();
  int dneg = d < 0;
  double ad = dneg ? -d : d;
  unsigned __int128 w = ad < 3.6e19 ? (unsigned __int128)ad : 0;
  j_bool("dneg", dneg); j_bool("dint", ad < 3.6e19 && (double)w == ad);
  j_arr_begin("dabs");
  for(int k = 0; k < 5; ++k) j_arr_int((long long)((unsigned long long)(w >> (16 * k)) & 0xffff));
  j_arr_end();
  j_bool("eq", eq && eq2);
  j_end();
}

void drv_apply(const char* op)
{
  if(!strcmp(op, "wide")) { do_wide(); return; }
  int i = (int)tok_int();
  int j = 0, r = 1;
  Lit* x = 0; unsigned char* key = 0; int keyn = 0;
  const char* logop = op;
  if(!strcmp(op, "smoke")) { r = smoke(i); i = 0; }
  else if(!strcmp(op, "ctor")) { x = lit_parse(); Variant* n = lit_apply(x, 0); delete B[i]; B[i] = n; }
  else if(!strcmp(op, "assign")) { x = lit_parse(); lit_apply(x, B[i]); }
  else if(!strcmp(op, "copy")) { j = (int)tok_int(); Variant* n = new Variant(*B[j]); delete B[i]; B[i] = n; }
  else if(!strcmp(op, "asg")) { j = (int)tok_int(); *B[i] = *B[j]; }
  else if(!strcmp(op, "clear")) B[i]->clear();
  else if(!strcmp(op, "swap")) { j = (int)tok_int(); B[i]->swap(*B[j]); }
  else if(!strcmp(op, "applistv") || !strcmp(op, "apparrv") || !strcmp(op, "mapsetv"))
  {
    j = (int)tok_int();
    if(!strcmp(op, "mapsetv")) key = tok_bytes(&keyn, 0);
    if(i == j) logop = "nop";           // appending a Variant to the container it holds itself is not part of the property
    else if(!strcmp(op, "applistv")) B[i]->toList().append(*B[j]);
    else if(!strcmp(op, "apparrv")) B[i]->toArray().append(*B[j]);
    else B[i]->toMap().append(mkstr(key, keyn), *B[j]);
  }
  else if(!strcmp(op, "heldapp"))
  {
    // the reference returned by the mutable accessor is kept across a copy of the Variant and used afterwards
    j = (int)tok_int();
    x = lit_parse();
    if(i == j) logop = "nop";
    else
    {
      Variant val; lit_build(x, val);
      List<Variant>& held = B[i]->toList();
      Variant* n = new Variant(*B[i]); delete B[j]; B[j] = n;
      held.append(val);
    }
  }
  else if(!strcmp(op, "getc"))
  {
    // like get, but through the CONTAINER- / String-valued assignment operators: B[i] = (const List<Variant>&) that lives
    // inside the last element of B[j]'s container (with i == j: the argument lives inside the value being replaced)
    j = (int)tok_int();
    logop = "get";
    const Variant& src = *B[j];
    const Variant* e = 0;
    switch(src.getType())
    {
    case Variant::listType: if(!src.toList().isEmpty()) e = &src.toList().back(); break;
    case Variant::arrayType: if(!src.toArray().isEmpty()) e = &src.toArray().back(); break;
    case Variant::mapType: if(!src.toMap().isEmpty()) { HashMap<String, Variant>::Iterator it = src.toMap().end(); --it; e = &*it; } break;
    default: break;
    }
    if(e)
      switch(e->getType())
      {
      case Variant::listType: *B[i] = e->toList(); break;
      case Variant::arrayType: *B[i] = e->toArray(); break;
      case Variant::mapType: *B[i] = e->toMap(); break;
      default: *B[i] = *e; break;
      }
  }
  else if(!strcmp(op, "get"))
  {
    j = (int)tok_int();
    const Variant& src = *B[j];
    switch(src.getType())
    {
    case Variant::listType: if(!src.toList().isEmpty()) *B[i] = src.toList().back(); break;
    case Variant::arrayType: if(!src.toArray().isEmpty()) *B[i] = src.toArray().back(); break;
    case Variant::mapType:
      if(!src.toMap().isEmpty())
      {
        HashMap<String, Variant>::Iterator it = src.toMap().end();
        --it;
        const Variant& e = *it;
        *B[i] = e;
      }
      break;
    default: break;
    }
  }
  else
  {
    int inner = !strncmp(op, "in_", 3);
    const char* base = inner ? op + 3 : op;
    Variant val;
    if(needs_val(base)) { if(!strcmp(base, "mapset")) key = tok_bytes(&keyn, 0); x = lit_parse(); lit_build(x, val); }
    else if(needs_key(base)) key = tok_bytes(&keyn, 0);
    Variant* target = B[i];
    if(inner)
    {
      target = 0;
      switch(B[i]->getType())      // the accessor of the container's own type, then back()
      {
      case Variant::listType: if(!((const Variant*)B[i])->toList().isEmpty()) target = &B[i]->toList().back(); break;
      case Variant::arrayType: if(!((const Variant*)B[i])->toArray().isEmpty()) target = &B[i]->toArray().back(); break;
      case Variant::mapType: if(!((const Variant*)B[i])->toMap().isEmpty()) target = &B[i]->toMap().back(); break;
      default: break;
      }
    }
    if(target && !mutate(base, *target, &val, key ? key : (const unsigned char*)"", keyn))
    { fprintf(stderr, "DRIVER-ERROR: unknown op %s\n", op); exit(3); }
  }
  observe(logop, i, j, x, key ? key : (const unsigned char*)"", keyn, r);
  lit_free(x);
  free(key);
}
