// Driver for nstd::Map / nstd::MultiMap (property C01; logging also serves C04 lifetime and C05 address stability).
//
// Containers: 1, 2 = Map<Tracked,Tracked>;  3, 4 = MultiMap<Tracked,Tracked>;  the sibling (1<->2, 3<->4) is the
// "other" container of copy / assign / bulk.  Element identity = serial of the stored value object.
//
// Op lines (c = container, k/v = key/value, p = 1-based position, reduced modulo the valid range by the driver):
//   insert c k v | insertHint c p k v (p <= 0: position relative to the lower bound of k, see below) | removeKey c k | removeAt c p | removeFront c | removeBack c | clear c
//   copy c (c := T(other)) | assign c (c = other) | bulk c (c.insert(other), Map only)
//   find c k | contains c k | count c k (MultiMap only) | front c | back c
//   self-argument operations for C04: assignself c | bulkself c | insertref c p | insertrefh c p h
// An operation whose precondition does not hold is logged as "nop" and not executed.
//
// Every event: op,c,k,v,p, r (id designated by the returned iterator, -1 end, -2 none), rv (number or -1),
//   n,pre,suf,mid (projection of c = [key,value,id,address id]... as a difference to its previous observation), ch ([j,projection] of every other container that changed),
//   size[4], empty[4], bwd (backward iteration = reverse), frx (find(key) of every position: exceptions [position,id] where it designates another element), cmp, maxfind,
//   Layer-2 observation: h (stored root height), bal (AVL fields consistent), shape ([parent position,height]...),
//   kept [checked,bad] (iterators/addresses recorded at first sight still designate the same element), lt lifetime.
//   C04: every projection tuple has a fifth component, the serial of the stored key instance; ov[4] = instances an empty
//   container object owns by itself (measured at start-up: its end sentinel), ld = held key/value instances that the
//   registry does not list as alive, q = live instances at the quiescent point of "fini" (all destroyed), -1 otherwise.
#include "drv.h"
#define private public
#define protected public
#include <nstd/Map.hpp>
#include <nstd/MultiMap.hpp>
#undef private
#undef protected
#include "tracked.h"

// key type: Tracked plus the two comparison operators MultiMap's hinted insert needs (all counted in trk_cmp)
struct TKey : Tracked
{
  TKey() {}
  TKey(int v) : Tracked(v) {}
  bool operator<=(const Tracked& o) const { check("cmp-dead"); o.check("cmp-dead"); ++trk_cmp; return value <= o.value; }
  bool operator>=(const Tracked& o) const { check("cmp-dead"); o.check("cmp-dead"); ++trk_cmp; return value >= o.value; }
};

typedef Map<TKey, Tracked> TMap;
typedef MultiMap<TKey, Tracked> TMulti;

// does the class have a usable copy assignment?  (MultiMap's implicit one is deleted: Item has a const member)
template<class T> T& lref();
template<class T> struct CanAssign
{
  template<class U> static char test(int, decltype((lref<U>() = (const U&)lref<U>()), 0) = 0);
  template<class U> static long test(...);
  enum { value = sizeof(test<T>(0)) == 1 };
};
template<int B> struct BoolTag {};
template<class C> static int assign_impl(C& a, const C& b, BoolTag<1>) { a = b; return 1; }
template<class C> static int assign_impl(C&, const C&, BoolTag<0>) { return 0; }
template<class C> static int do_assign(C& a, const C& b) { return assign_impl(a, b, BoolTag<CanAssign<C>::value>()); }

static TMap* M[3] = {0, 0, 0};         // containers 1, 2
static TMulti* MM[3] = {0, 0, 0};      // containers 3, 4
static int g_shape = 1;                // log the node-for-node shape (argv[3] = "noshape" turns it off)

// ---- projection store (previous observation of each container)
struct Ent { int k, v; long id; int addr; const void* node; long kid; int alive; };
struct Proj { Ent* e; int n, cap; int corrupt; };
static Proj cur[5], prev[5];
static void proj_reserve(Proj& p, int n)
{
  if(n > p.cap) { p.cap = n * 2 + 16; p.e = (Ent*)realloc(p.e, sizeof(Ent) * p.cap); }
}
static int proj_same(const Proj& a, const Proj& b)
{
  if(a.n != b.n || a.corrupt != b.corrupt) return 0;
  for(int i = 0; i < a.n; ++i)
    if(a.e[i].k != b.e[i].k || a.e[i].v != b.e[i].v || a.e[i].id != b.e[i].id || a.e[i].addr != b.e[i].addr || a.e[i].kid != b.e[i].kid) return 0;
  return 1;
}
static int ent_same(const Ent& a, const Ent& b) { return a.k == b.k && a.v == b.v && a.id == b.id && a.addr == b.addr && a.kid == b.kid; }
static void proj_copy(Proj& d, const Proj& s)
{
  proj_reserve(d, s.n);
  if(s.n) memcpy(d.e, s.e, sizeof(Ent) * s.n);
  d.n = s.n; d.corrupt = s.corrupt;
}

// ---- kept iterators (C05): one record per live element, indexed by serial
struct Kept { const void* item; const void* addr; int addrid; char cont; };
static Kept* kept = 0;
static long kept_cap = 0;
static unsigned char* livemark = 0;   // per serial: container that currently lists it (this observation)
static long livemark_cap = 0;
static void kept_reserve(long serial)
{
  if(serial >= kept_cap)
  {
    long nc = serial * 2 + 1024;
    kept = (Kept*)realloc(kept, sizeof(Kept) * nc);
    memset(kept + kept_cap, 0, sizeof(Kept) * (nc - kept_cap));
    kept_cap = nc;
  }
}

enum { MAXIT = 1 << 20 };
static long g_ov[5] = {0, 0, 0, 0, 0};   // instances owned by an empty container object (per container index)
static long g_q = -1;
static int inst_alive(const Tracked& t) { return t.magic == 0x600DF00Du && t.serial > 0 && t.serial < trk_next && trk_state[t.serial] == 1; }

template<class C> struct Acc
{
  typedef typename C::Iterator It;
  typedef typename C::Item Item;

  static void project(const C& m, Proj& p)
  {
    p.n = 0; p.corrupt = 0;
    long cnt = 0;
    for(It i = m.begin(), end = m.end(); i != end; ++i)
    {
      if(++cnt > (long)m.size() + 4 || cnt > MAXIT || !i.item) { p.corrupt = 1; break; }   // broken list (cycle / null link)
      proj_reserve(p, p.n + 1);
      Ent& e = p.e[p.n++];
      const Tracked& val = *i;
      e.k = i.key().value; e.v = val.value; e.id = val.serial; e.node = i.item;
      e.kid = i.key().serial;
      e.alive = inst_alive(val) && inst_alive(i.key());
      // address id: cached per element while its node is unchanged (addr_id() searches linearly)
      if(e.id > 0 && e.id < kept_cap && kept[e.id].cont && kept[e.id].item == e.node && kept[e.id].addr == (const void*)&val)
        e.addr = kept[e.id].addrid;
      else
        e.addr = addr_id(&val);
    }
  }
  // backward iteration from end() yields the reverse of the forward projection
  static int backward_ok(const C& m, const Proj& p)
  {
    if(p.corrupt) return 0;
    It i = m.end();
    for(int k = p.n - 1; k >= 0; --k)
    {
      --i;
      if(!i.item || i.item != (const Item*)p.e[k].node) return 0;
    }
    return i == m.begin();
  }
  static int walk(const Item* x, const Item* parent, int depth, int* counter, int* par, int* hgt, const void** nodes, int cap, int* ok)
  {
    if(depth > 64 || *counter >= cap) { *ok = 0; return 0; }
    int li = x->left ? walk(x->left, x, depth + 1, counter, par, hgt, nodes, cap, ok) : 0;
    if(*counter >= cap) { *ok = 0; return 0; }
    int my = ++*counter;
    nodes[my] = x;
    int ri = x->right ? walk(x->right, x, depth + 1, counter, par, hgt, nodes, cap, ok) : 0;
    if(li) par[li] = my;
    if(ri) par[ri] = my;
    par[my] = 0;
    hgt[my] = (int)x->height;
    int lh = li ? hgt[li] : 0, rh = ri ? hgt[ri] : 0;
    if(x->parent != parent) *ok = 0;
    if((int)x->height != (lh > rh ? lh : rh) + 1) *ok = 0;
    if((long)x->slope != (long)lh - (long)rh) *ok = 0;
    if(lh - rh > 1 || rh - lh > 1) *ok = 0;
    return my;
  }
  // Layer-2 observation: tree fields consistent (parent links, stored height/slope, |slope|<=1, in-order = list);
  // fills par/hgt (1-based by in-order position)
  static int tree_ok(const C& m, const Proj& p, int* par, int* hgt, const void** nodes)
  {
    int ok = 1, counter = 0;
    if(m.root) walk(m.root, 0, 0, &counter, par, hgt, nodes, p.n + 1, &ok);
    if(counter != p.n) return 0;
    for(int i = 0; i < p.n; ++i) if(nodes[i + 1] != p.e[i].node) ok = 0;
    if((p.n == 0) != (m.root == 0)) ok = 0;
    return ok;
  }
  static long it_id(const C& m, const It& it) { return it == m.end() ? -1 : (*it).serial; }
  static It at(const C& m, int pos)      // 1-based position; size+1 = end
  {
    It i = m.begin();
    for(int k = 1; k < pos; ++k) ++i;
    return i;
  }
};

// operations that exist in only one of the two classes
static long do_count(TMap&, const TKey&) { return -2; }
static long do_count(TMulti& m, const TKey& k) { return (long)m.count(k); }
static int do_bulk(TMap& m, const TMap& o) { m.insert(o); return 1; }
static int do_bulk(TMulti&, const TMulti&) { return 0; }

static int* g_par = 0; static int* g_hgt = 0; static const void** g_nodes = 0; static int g_tcap = 0;
static long* g_fr = 0; static int g_frcap = 0;

static void log_proj(const Proj& p)
{
  fputc('[', g_out);
  for(int i = 0; i < p.n; ++i)
    fprintf(g_out, i ? ",[%d,%d,%ld,%d,%ld]" : "[%d,%d,%ld,%d,%ld]", p.e[i].k, p.e[i].v, p.e[i].id, p.e[i].addr, p.e[i].kid);
  if(p.corrupt) fputs(p.n ? ",[-1,-1,-1,-1,-1]" : "[-1,-1,-1,-1,-1]", g_out);
  fputc(']', g_out);
}

template<class C> static void project_all(C** arr, int base)
{
  for(int j = 1; j <= 2; ++j) Acc<C>::project(*arr[j], cur[base + j]);
}

// after the operation on container c: log everything
template<class C> static void finish_event(int c, C** arr, int base, long cmp)
{
  typedef Acc<C> A;
  int ci = c - base;
  C& m = *arr[ci];
  project_all<TMap>(M, 0);
  project_all<TMulti>(MM, 2);
  const Proj& p = cur[c];
  { // the projection of c is logged as a difference to its previous observation:
    // new = first `pre` entries of the previous projection + mid + last `suf` entries of the previous projection
    const Proj& q = prev[c];
    int pre = 0, suf = 0;
    if(!p.corrupt && !q.corrupt)
    {
      while(pre < p.n && pre < q.n && ent_same(p.e[pre], q.e[pre])) ++pre;
      while(suf < p.n - pre && suf < q.n - pre && ent_same(p.e[p.n - 1 - suf], q.e[q.n - 1 - suf])) ++suf;
    }
    fprintf(g_out, ",\"n\":%d,\"pre\":%d,\"suf\":%d,\"mid\":[", p.n, pre, suf);
    for(int i = pre; i < p.n - suf; ++i)
      fprintf(g_out, i > pre ? ",[%d,%d,%ld,%d,%ld]" : "[%d,%d,%ld,%d,%ld]", p.e[i].k, p.e[i].v, p.e[i].id, p.e[i].addr, p.e[i].kid);
    if(p.corrupt) fputs(p.n - suf > pre ? ",[-1,-1,-1,-1,-1]" : "[-1,-1,-1,-1,-1]", g_out);
    fputc(']', g_out);
  }
  fputs(",\"ch\":[", g_out);
  int first = 1;
  for(int j = 1; j <= 4; ++j)
    if(j != c && !proj_same(cur[j], prev[j]))
    {
      fprintf(g_out, first ? "[%d," : ",[%d,", j); log_proj(cur[j]); fputc(']', g_out); first = 0;
    }
  fputc(']', g_out);
  for(int j = 1; j <= 4; ++j) proj_copy(prev[j], cur[j]);
  fprintf(g_out, ",\"size\":[%ld,%ld,%ld,%ld]", (long)M[1]->size(), (long)M[2]->size(), (long)MM[1]->size(), (long)MM[2]->size());
  fprintf(g_out, ",\"empty\":[%s,%s,%s,%s]", M[1]->isEmpty() ? "true" : "false", M[2]->isEmpty() ? "true" : "false",
          MM[1]->isEmpty() ? "true" : "false", MM[2]->isEmpty() ? "true" : "false");
  j_bool("bwd", A::backward_ok(m, p));
  // find of every present key: designated id and comparison count
  if(p.n + 2 > g_frcap) { g_frcap = p.n * 2 + 16; g_fr = (long*)realloc(g_fr, sizeof(long) * g_frcap); }
  long maxfind = 0;
  // frx: [position, id] for every position whose key is found at an element other than the one at that position
  fputs(",\"frx\":[", g_out);
  int ffirst = 1;
  for(int i = 0; i < p.n && !p.corrupt; ++i)
  {
    TKey key(p.e[i].k);
    long c0 = trk_cmp;
    typename C::Iterator it = m.find(key);
    long used = trk_cmp - c0;
    if(used > maxfind) maxfind = used;
    long fid = A::it_id(m, it);
    if(fid != p.e[i].id) { fprintf(g_out, ffirst ? "[%d,%ld]" : ",[%d,%ld]", i + 1, fid); ffirst = 0; }
  }
  fputc(']', g_out);
  j_int("cmp", cmp);
  j_int("maxfind", maxfind);
  // Layer-2 observation
  if(p.n + 2 > g_tcap)
  {
    g_tcap = p.n * 2 + 16;
    g_par = (int*)realloc(g_par, sizeof(int) * g_tcap); g_hgt = (int*)realloc(g_hgt, sizeof(int) * g_tcap);
    g_nodes = (const void**)realloc(g_nodes, sizeof(void*) * g_tcap);
  }
  int bal = p.corrupt ? 0 : A::tree_ok(m, p, g_par, g_hgt, g_nodes);
  j_int("h", m.root ? (long)m.root->height : 0);
  j_bool("bal", bal);
  fputs(",\"shape\":[", g_out);
  if(g_shape && bal)
    for(int i = 1; i <= p.n; ++i) fprintf(g_out, i > 1 ? ",[%d,%d]" : "[%d,%d]", g_par[i], g_hgt[i]);
  fputc(']', g_out);
  // kept iterators: every element is recorded when first seen; while it is listed by its container the recorded
  // node / address must still be the ones iteration reaches for that id
  long checked = 0, bad = 0;
  for(int j = 1; j <= 4; ++j)
    for(int i = 0; i < cur[j].n; ++i)
    {
      const Ent& e = cur[j].e[i];
      if(e.id <= 0 || e.id >= TRK_MAX) { ++bad; continue; }
      kept_reserve(e.id);
      Kept& kp = kept[e.id];
      if(!kp.cont)
      { // first sight (the observation right after the insertion): keep the iterator (= node) and the element address
        kp.cont = (char)j; kp.item = e.node; kp.addrid = e.addr;
        kp.addr = j <= 2 ? (const void*)&*TMap::Iterator((TMap::Item*)kp.item) : (const void*)&*TMulti::Iterator((TMulti::Item*)kp.item);
        continue;
      }
      ++checked;
      // re-dereference the kept iterator
      const Tracked* viaIt = j <= 2 ? &*TMap::Iterator((TMap::Item*)kp.item) : &*TMulti::Iterator((TMulti::Item*)kp.item);
      if(kp.cont != j || kp.item != e.node || (const void*)viaIt != kp.addr || viaIt->serial != e.id || viaIt->magic != 0x600DF00Du) ++bad;
    }
  fprintf(g_out, ",\"kept\":[%ld,%ld]", checked, bad);
  long ld = 0;
  for(int j = 1; j <= 4; ++j)
    for(int i = 0; i < cur[j].n; ++i) if(!cur[j].e[i].alive) ++ld;
  fprintf(g_out, ",\"ov\":[%ld,%ld,%ld,%ld],\"ld\":%ld,\"q\":%ld", g_ov[1], g_ov[2], g_ov[3], g_ov[4], ld, g_q);
  g_q = -1;
  J_LIFETIME();
  j_end();
}

static void head(const char* op, int c, long k, long v, long p, long r, long rv)
{
  j_begin(op); j_int("c", c); j_int("k", k); j_int("v", v); j_int("p", p); j_int("r", r); j_int("rv", rv);
}

template<class C> static void apply_on(const char* op, int c, C** arr, int base)
{
  typedef Acc<C> A;
  typedef typename C::Iterator It;
  int ci = c - base, oi = 3 - ci;
  C& m = *arr[ci];
  C& o = *arr[oi];
  long n = (long)m.size();
  long k = 0, v = 0, p = 0, r = -2, rv = -1;
  long c0;
  long cmp = 0;
  const char* lop = op;
  if(!strcmp(op, "insert"))
  {
    k = tok_int(); v = tok_int();
    { TKey key((int)k); Tracked val((int)v); c0 = trk_cmp; It it = m.insert(key, val); cmp = trk_cmp - c0; r = A::it_id(m, it); }
  }
  else if(!strcmp(op, "insertHint"))
  {
    p = tok_int(); k = tok_int(); v = tok_int();
    if(p <= 0)
    { // relative hint: 0 = lower bound of k (first element with key >= k), -1 = +1, -2 = -1, -3 = +2, -4 = upper bound, -5 = end
      const Proj& pp = prev[c];          // = current contents (projection logged by the previous event)
      long lb = 1, ub = 1;
      for(int i = 0; i < pp.n; ++i) { if(pp.e[i].k < k) ++lb; if(pp.e[i].k <= k) ++ub; }
      p = p == 0 ? lb : p == -1 ? lb + 1 : p == -2 ? lb - 1 : p == -3 ? lb + 2 : p == -4 ? ub : n + 1;
      if(p < 1) p = 1;
    }
    p = (p - 1) % (n + 1); if(p < 0) p += n + 1; p += 1;
    { TKey key((int)k); Tracked val((int)v); It pos = A::at(m, (int)p); c0 = trk_cmp; It it = m.insert(pos, key, val); cmp = trk_cmp - c0; r = A::it_id(m, it); }
  }
  else if(!strcmp(op, "removeKey"))
  {
    k = tok_int();
    { TKey key((int)k); c0 = trk_cmp; m.remove(key); cmp = trk_cmp - c0; }
  }
  else if(!strcmp(op, "removeAt"))
  {
    p = tok_int();
    if(n == 0) lop = "nop";
    else
    {
      p = (p - 1) % n; if(p < 0) p += n; p += 1;
      It pos = A::at(m, (int)p); c0 = trk_cmp; It it = m.remove(pos); cmp = trk_cmp - c0; r = A::it_id(m, it);
    }
  }
  else if(!strcmp(op, "removeFront"))
  {
    if(n == 0) lop = "nop";
    else { c0 = trk_cmp; It it = m.removeFront(); cmp = trk_cmp - c0; r = A::it_id(m, it); }
  }
  else if(!strcmp(op, "removeBack"))
  {
    if(n == 0) lop = "nop";
    else { c0 = trk_cmp; It it = m.removeBack(); cmp = trk_cmp - c0; r = A::it_id(m, it); }
  }
  else if(!strcmp(op, "clear")) { c0 = trk_cmp; m.clear(); cmp = trk_cmp - c0; }
  else if(!strcmp(op, "copy"))
  {
    c0 = trk_cmp;
    C* fresh = new C(o);
    delete arr[ci];
    arr[ci] = fresh;
    cmp = trk_cmp - c0;
  }
  else if(!strcmp(op, "assign")) { c0 = trk_cmp; if(!do_assign(m, o)) lop = "nop"; cmp = trk_cmp - c0; }
  else if(!strcmp(op, "bulk")) { c0 = trk_cmp; if(!do_bulk(m, o)) lop = "nop"; cmp = trk_cmp - c0; }
  else if(!strcmp(op, "find"))
  {
    k = tok_int();
    { TKey key((int)k); c0 = trk_cmp; It it = m.find(key); cmp = trk_cmp - c0; r = A::it_id(m, it); }
  }
  else if(!strcmp(op, "contains"))
  {
    k = tok_int();
    { TKey key((int)k); c0 = trk_cmp; rv = m.contains(key) ? 1 : 0; cmp = trk_cmp - c0; }
  }
  else if(!strcmp(op, "count"))
  {
    k = tok_int();
    { TKey key((int)k); c0 = trk_cmp; rv = do_count(m, key); cmp = trk_cmp - c0; }
    if(rv == -2) { rv = -1; lop = "nop"; }
  }
  else if(!strcmp(op, "front"))
  {
    if(n == 0) lop = "nop"; else { const C& cm = m; r = m.front().serial; if(&cm.front() != &m.front()) r = -3; }
  }
  else if(!strcmp(op, "back"))
  {
    if(n == 0) lop = "nop"; else { const C& cm = m; r = m.back().serial; if(&cm.back() != &m.back()) r = -3; }
  }
  // ---- self-argument operations (C04)
  else if(!strcmp(op, "assignself")) { C& self = m; c0 = trk_cmp; if(!do_assign(m, self)) lop = "nop"; cmp = trk_cmp - c0; }
  else if(!strcmp(op, "bulkself")) { c0 = trk_cmp; if(!do_bulk(m, m)) lop = "nop"; cmp = trk_cmp - c0; }
  else if(!strcmp(op, "insertref"))
  {
    p = tok_int();
    if(n == 0) lop = "nop";
    else
    {
      p = (p - 1) % n; if(p < 0) p += n; p += 1;
      It src = A::at(m, (int)p);
      k = src.key().value; v = (*src).value;
      c0 = trk_cmp; It it = m.insert(src.key(), *src); cmp = trk_cmp - c0; r = A::it_id(m, it);
      k = 0; v = 0;
    }
  }
  else if(!strcmp(op, "insertrefh"))
  {
    p = tok_int(); k = tok_int();      // k = hint position
    if(n == 0) { lop = "nop"; k = 0; }
    else
    {
      p = (p - 1) % n; if(p < 0) p += n; p += 1;
      k = (k - 1) % (n + 1); if(k < 0) k += n + 1; k += 1;
      It src = A::at(m, (int)p);
      It pos = A::at(m, (int)k);
      c0 = trk_cmp; It it = m.insert(pos, src.key(), *src); cmp = trk_cmp - c0; r = A::it_id(m, it);
    }
  }
  else { fprintf(stderr, "DRIVER-ERROR: unknown op %s\n", op); exit(3); }
  if(lop != op) { k = v = p = 0; r = -2; rv = -1; }
  head(lop, c, k, v, p, r, rv);
  finish_event<C>(c, arr, base, cmp);
}

void drv_init(int argc, char** argv)
{
  for(int i = 3; i < argc; ++i) if(!strcmp(argv[i], "noshape")) g_shape = 0;
  trk_reset_registry();
  g_op_timeout = 5;     // one operation (plus its logging) takes microseconds; a longer one is a hang
  // measure what an empty container object owns (created and destroyed again: the balance must return to zero)
  { long b = trk_live(); TMap* m = new TMap; g_ov[1] = g_ov[2] = trk_live() - b; delete m; if(trk_live() != b) g_ov[1] = g_ov[2] = -1000; }
  { long b = trk_live(); TMulti* m = new TMulti; g_ov[3] = g_ov[4] = trk_live() - b; delete m; if(trk_live() != b) g_ov[3] = g_ov[4] = -1000; }
  trk_reset_registry();
}
void drv_fini()
{
  for(int i = 1; i <= 2; ++i) { delete M[i]; M[i] = 0; delete MM[i]; MM[i] = 0; }
}
void drv_reset()
{
  drv_fini();
  if(trk_errors)
  { // a lifetime error of the previous execution must not vanish silently (it is in that execution's last event too)
  }
  trk_reset_registry();
  addr_reset();
  if(kept) memset(kept, 0, sizeof(Kept) * kept_cap);
  for(int i = 1; i <= 2; ++i) { M[i] = new TMap; MM[i] = new TMulti; }
  for(int j = 1; j <= 4; ++j) { cur[j].n = prev[j].n = 0; cur[j].corrupt = prev[j].corrupt = 0; }
}

void drv_apply(const char* op)
{
  int c = (int)tok_int();
  if(!strcmp(op, "fini"))
  { // destroy all four containers (lifetime balance for C04), then start again with empty ones
    drv_fini();
    g_q = trk_live();
    for(int i = 1; i <= 2; ++i) { M[i] = new TMap; MM[i] = new TMulti; }
    head("fini", c, 0, 0, 0, -2, -1);
    if(c <= 2) finish_event<TMap>(c, M, 0, 0); else finish_event<TMulti>(c, MM, 2, 0);
    return;
  }
  if(c < 1 || c > 4) { fprintf(stderr, "DRIVER-ERROR: bad container %d\n", c); exit(3); }
  if(c <= 2) apply_on<TMap>(op, c, M, 0);
  else apply_on<TMulti>(op, c, MM, 2);
}
