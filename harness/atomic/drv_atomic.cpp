// Native driver for extra X07: the real Atomic functions (compiled WITHOUT the NSTD_VERIF hook, no sanitizers) called by
// real threads that run truly concurrently on one variable.
//   usage: drv_atomic <ops file> <trace file>
//   exec <kind> <init hex> <prog> <prog> ...          prog = op,op,...  op = f[:hex[:hex]]   (one thread per prog, <= 4)
//        -> one "exec" event: per-thread call sequences with results (the trace spec searches for a linearization)
//   agg <mode> <kind> <init hex> <threads> <iters>    long stress runs judged by conservation + explicit oracles:
//        count     mixed increment / decrement / fetchAndAdd: final = init + sum of all deltas (modulo 2^w)
//        ticket    fetchAndAdd(x, 1): the returned values are pairwise different and cover init .. init+N-1
//        incticket increment: the returned values are pairwise different and cover init+1 .. init+N
//        caswin    load + compareAndSwap(x, o, o + 1) retry loops: for every expected value exactly one call succeeded
//        swapring  swap(x, unique token): every value stored comes back exactly once (returned or final)
//        spin      testAndSet spin lock + store(0) unlock around a plain counter: nobody else inside, counter exact
//        -> one "agg" event with init, final, total (limbs), sum (does final = init + total apply), bad (oracle breaches)
// Values are logged as little-endian 16-bit limbs of the operand's bit pattern.
#include "aops.h"
#include <pthread.h>
#include <sched.h>
#include <signal.h>
#include <unistd.h>

#ifdef NSTD_VERIF
extern "C" void nstd_verif_point(int, const volatile void*) {}
#endif

enum { MAXT = 4, MAXOPS = 8 };
struct Call { int f; unsigned long long a, b, r; int neg; };
static Call prog[MAXT][MAXOPS];
static int nops[MAXT];
static int nthreads, kind, nl;
static AVar var;
static volatile int ready, go;
static FILE* out;

// agg state
static char mode[16];
static long iters;
static unsigned long long init_pat, mask;
static unsigned long long* results[MAXT];
static unsigned long long totals[MAXT];
static volatile long counter;
static volatile int inside;
static long badT[MAXT];

static void gate()
{
  __atomic_add_fetch(&ready, 1, __ATOMIC_SEQ_CST);
  while(!__atomic_load_n(&go, __ATOMIC_ACQUIRE)) {}
}

static void* exec_thread(void* arg)
{
  int t = (int)(long)arg;
  gate();
  for(int i = 0; i < nops[t]; ++i)
  {
    Call& c = prog[t][i];
    c.r = aop_call(kind, var, c.f, c.a, c.b, &c.neg);
  }
  return 0;
}

static void* agg_thread(void* arg)
{
  int t = (int)(long)arg;
  int neg;
  unsigned long long* res = results[t];
  unsigned long long total = 0;
  long bad = 0;
  gate();
  if(!strcmp(mode, "count"))
  {
    for(long i = 0; i < iters; ++i)
      switch((i + t) & 3)
      {
      case 0: case 1: aop_call(kind, var, F_INC, 0, 0, &neg); total += 1; break;
      case 2: aop_call(kind, var, F_FAA, (unsigned long long)(t + 2) & mask, 0, &neg); total += (unsigned long long)(t + 2); break;
      default: aop_call(kind, var, F_DEC, 0, 0, &neg); total -= 1; break;
      }
  }
  else if(!strcmp(mode, "ticket"))
    for(long i = 0; i < iters; ++i) res[i] = aop_call(kind, var, F_FAA, 1, 0, &neg);
  else if(!strcmp(mode, "incticket"))
    for(long i = 0; i < iters; ++i) res[i] = aop_call(kind, var, F_INC, 0, 0, &neg);
  else if(!strcmp(mode, "caswin"))
    for(long i = 0; i < iters; ++i)
      for(;;)
      {
        unsigned long long o = aop_call(kind, var, F_LOAD, 0, 0, &neg);
        if(aop_call(kind, var, F_CAS, o, (o + 1) & mask, &neg) == o) { res[i] = o; break; }
      }
  else if(!strcmp(mode, "swapring"))
    for(long i = 0; i < iters; ++i) res[i] = aop_call(kind, var, F_SWAP, 0x100000ULL * (unsigned)(t + 1) + (unsigned long long)i, 0, &neg);
  else if(!strcmp(mode, "spin"))
    for(long i = 0; i < iters; ++i)
    {
      long spins = 0;
      while(aop_call(kind, var, F_TAS, 0, 0, &neg) != 0) if(++spins % 64 == 0) sched_yield();
      if(inside) ++bad;
      inside = 1;
      counter = counter + 1;
      inside = 0;
      aop_call(kind, var, F_STORE, 0, 0, &neg);
    }
  totals[t] = total;
  badT[t] = bad;
  return 0;
}

static void run_threads(void* (*fn)(void*))
{
  pthread_t th[MAXT];
  ready = 0; go = 0;
  for(int t = 0; t < nthreads; ++t) pthread_create(&th[t], 0, fn, (void*)(long)t);
  while(__atomic_load_n(&ready, __ATOMIC_SEQ_CST) < nthreads) {}
  __atomic_store_n(&go, 1, __ATOMIC_RELEASE);
  for(int t = 0; t < nthreads; ++t) pthread_join(th[t], 0);
}

static int cmp_u64(const void* a, const void* b)
{
  unsigned long long x = *(const unsigned long long*)a, y = *(const unsigned long long*)b;
  return x < y ? -1 : x > y;
}

static void on_alarm(int) { static const char msg[] = "DRIVER-HANG: native run did not finish\n"; (void)!write(2, msg, sizeof(msg) - 1); _exit(97); }

int main(int argc, char** argv)
{
  if(argc < 3) { fprintf(stderr, "usage: %s <ops> <trace>\n", argv[0]); return 2; }
  FILE* in = fopen(argv[1], "r");
  out = fopen(argv[2], "w");
  if(!in || !out) { perror("open"); return 2; }
  signal(SIGALRM, on_alarm);
  static char line[4096];
  char lim[4][64];
  while(fgets(line, sizeof(line), in))
  {
    char* save = 0;
    char* w = strtok_r(line, " \n", &save);
    if(!w || w[0] == '#') continue;
    if(!strcmp(w, "reset")) { fputs("{\"op\":\"reset\"}\n", out); continue; }
    alarm(120);
    if(!strcmp(w, "exec"))
    {
      kind = akind_of(strtok_r(0, " \n", &save));
      if(kind < 0) { fprintf(stderr, "DRIVER-ERROR: bad kind\n"); return 3; }
      nl = akind_limbs(kind); mask = akind_mask(kind);
      init_pat = ahex(strtok_r(0, " \n", &save)) & mask;
      nthreads = 0;
      for(char* p = strtok_r(0, " \n", &save); p && nthreads < MAXT; p = strtok_r(0, " \n", &save))
      {
        int t = nthreads++;
        nops[t] = 0;
        char* s2 = 0;
        for(char* tok = strtok_r(p, ",", &s2); tok && nops[t] < MAXOPS; tok = strtok_r(0, ",", &s2))
        {
          Call c = {0, 0, 0, 0, 0};
          char* c1 = strchr(tok, ':');
          char* c2 = c1 ? strchr(c1 + 1, ':') : 0;
          if(c1) *c1 = 0;
          if(c2) *c2 = 0;
          c.f = afun_of(tok);
          if(c.f < 0 || !aop_declared(kind, c.f)) { fprintf(stderr, "DRIVER-ERROR: bad op %s for kind %s\n", tok, akind_names[kind]); return 3; }
          if(c1) c.a = ahex(c1 + 1) & mask;
          if(c2) c.b = ahex(c2 + 1) & mask;
          prog[t][nops[t]++] = c;
        }
      }
      avar_set(kind, var, init_pat);
      run_threads(exec_thread);
      alimbs(lim[0], 64, init_pat, nl); alimbs(lim[1], 64, avar_get(kind, var), nl);
      fprintf(out, "{\"op\":\"exec\",\"kind\":\"%s\",\"sg\":%s,\"init\":%s,\"final\":%s,\"progs\":[", akind_names[kind], akind_signed(kind) ? "true" : "false", lim[0], lim[1]);
      for(int t = 0; t < nthreads; ++t)
      {
        fprintf(out, t ? ",[" : "[");
        for(int i = 0; i < nops[t]; ++i)
        {
          const Call& c = prog[t][i];
          alimbs(lim[0], 64, c.a, nl); alimbs(lim[1], 64, c.b, nl); alimbs(lim[2], 64, c.r, nl);
          fprintf(out, "%s{\"f\":\"%s\",\"a\":%s,\"b\":%s,\"r\":%s,\"ng\":%s}", i ? "," : "", afun_names[c.f], lim[0], lim[1], lim[2], c.neg ? "true" : "false");
        }
        fputc(']', out);
      }
      fputs("]}\n", out);
    }
    else if(!strcmp(w, "agg"))
    {
      snprintf(mode, sizeof(mode), "%s", strtok_r(0, " \n", &save));
      kind = akind_of(strtok_r(0, " \n", &save));
      if(kind < 0) { fprintf(stderr, "DRIVER-ERROR: bad kind\n"); return 3; }
      nl = akind_limbs(kind); mask = akind_mask(kind);
      init_pat = ahex(strtok_r(0, " \n", &save)) & mask;
      nthreads = atoi(strtok_r(0, " \n", &save));
      iters = atol(strtok_r(0, " \n", &save));
      if(nthreads < 1 || nthreads > MAXT || iters < 1 || iters > 2000000) { fprintf(stderr, "DRIVER-ERROR: bad agg parameters\n"); return 3; }
      int ptr_ok = !strcmp(mode, "caswin") || !strcmp(mode, "swapring");
      if(kind == K_PTR && !ptr_ok) { fprintf(stderr, "DRIVER-ERROR: mode %s is not declared for pointers\n", mode); return 3; }
      if(!strcmp(mode, "spin") || !strcmp(mode, "count")) {} else for(int t = 0; t < nthreads; ++t) results[t] = (unsigned long long*)calloc(iters, sizeof(unsigned long long));
      if(!strcmp(mode, "spin")) init_pat = 0;
      counter = 0; inside = 0;
      avar_set(kind, var, init_pat);
      run_threads(agg_thread);
      unsigned long long fin = avar_get(kind, var), total = 0;
      long N = (long)nthreads * iters, bad = 0;
      int sum = 1;
      for(int t = 0; t < nthreads; ++t) bad += badT[t];
      if(!strcmp(mode, "count")) { for(int t = 0; t < nthreads; ++t) total += totals[t]; }
      else if(!strcmp(mode, "spin")) { total = 0; if(counter != N) ++bad; if(inside) ++bad; }
      else if(!strcmp(mode, "swapring"))
      {
        // multiset {init} + tokens stored  ==  multiset of returned values + {final}
        sum = 0;
        unsigned long long* put = (unsigned long long*)calloc(N + 1, sizeof(unsigned long long));
        unsigned long long* got = (unsigned long long*)calloc(N + 1, sizeof(unsigned long long));
        long k = 0;
        for(int t = 0; t < nthreads; ++t) for(long i = 0; i < iters; ++i) { put[k] = (0x100000ULL * (unsigned)(t + 1) + (unsigned long long)i) & mask; got[k] = results[t][i]; ++k; }
        put[N] = init_pat; got[N] = fin;
        qsort(put, N + 1, sizeof(unsigned long long), cmp_u64); qsort(got, N + 1, sizeof(unsigned long long), cmp_u64);
        for(long i = 0; i <= N; ++i) if(put[i] != got[i]) ++bad;
        free(put); free(got);
      }
      else
      {
        // tickets: normalised results must be a permutation of 0 .. N-1
        total = (unsigned long long)N;
        unsigned long long off = !strcmp(mode, "incticket") ? init_pat + 1 : init_pat;
        unsigned char* seen = (unsigned char*)calloc(N, 1);
        for(int t = 0; t < nthreads; ++t)
          for(long i = 0; i < iters; ++i)
          {
            unsigned long long d = (results[t][i] - off) & mask;
            if(d >= (unsigned long long)N || seen[d]) ++bad; else seen[d] = 1;
          }
        free(seen);
      }
      for(int t = 0; t < nthreads; ++t) { free(results[t]); results[t] = 0; }
      alimbs(lim[0], 64, init_pat, nl); alimbs(lim[1], 64, fin, nl); alimbs(lim[2], 64, total & mask, nl);
      fprintf(out, "{\"op\":\"agg\",\"mode\":\"%s\",\"kind\":\"%s\",\"n\":%d,\"iters\":%ld,\"init\":%s,\"final\":%s,\"total\":%s,\"sum\":%s,\"bad\":%ld}\n",
              mode, akind_names[kind], nthreads, iters, lim[0], lim[1], lim[2], sum ? "true" : "false", bad);
    }
    else { fprintf(stderr, "DRIVER-ERROR: unknown line %s\n", w); return 3; }
    alarm(0);
    fflush(out);
  }
  fclose(out);
  return 0;
}
