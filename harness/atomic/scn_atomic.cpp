// Scenario for extra X07: threads run short programs of Atomic calls on ONE shared variable under the cooperative
// scheduler (harness/sched).  The TU is compiled with -DNSTD_VERIF: the hook macros in Atomic.hpp turn every
// __sync builtin (and the fence in load / store) into a scheduling point that precedes the access, so a schedule
// token "t" = thread t performs its next atomic access, and the order of the logged events IS the order of the atomic
// steps (the baton holder logs right after its call returns, before the next scheduling point).
//   kind=i32|u32|i64|u64|ptr  init=<hex bit pattern>  n=<threads>  p<t>=op,op,...
//   op = inc | dec | faa:<hex> | swap:<hex> | cas:<hex>:<hex> | tas | load | store:<hex> | fence
//      | acq (spin: testAndSet until it returns 0) | rel (store 0) | csr | csw (plain counter: read / write back + 1,
//        each preceded by an explicit scheduling point - the critical section of the spin lock)
// Events: setup; one "call" per Atomic call with arguments, result (16-bit limbs, little endian), sign of the result in
// the declared return type and the variable's value right after the call; "enter" / "leave" around critical
// sections; "final" with the variable and the plain counter.
#include "../sched/sched.h"
#include "aops.h"

extern "C" int sched_param_str(const char* name, char* buf, int size);

enum { MAXT = 4, MAXOPS = 16 };
struct POp { int f; unsigned long long a, b; };      // f >= 100: acq / rel / csr / csw
enum { X_ACQ = 100, X_REL, X_CSR, X_CSW };
static POp prog[MAXT + 1][MAXOPS];
static int nops[MAXT + 1];
static int nthreads = 2, kind = K_I32, nl = 2;
static AVar var;
static volatile long counter = 0;
static int leaves = 0;

static void log_call(int t, const char* f, unsigned long long a, unsigned long long b, unsigned long long r, int neg)
{
  char sa[64], sb[64], sr[64], sv[64];
  alimbs(sa, sizeof(sa), a & akind_mask(kind), nl); alimbs(sb, sizeof(sb), b & akind_mask(kind), nl);
  alimbs(sr, sizeof(sr), r, nl); alimbs(sv, sizeof(sv), avar_get(kind, var), nl);
  sched_event("\"op\":\"call\",\"t\":%d,\"f\":\"%s\",\"a\":%s,\"b\":%s,\"r\":%s,\"ng\":%s,\"v\":%s", t, f, sa, sb, sr, neg ? "true" : "false", sv);
}

static void run_prog(void* arg)
{
  int t = (int)(long)arg;
  for(int i = 0; i < nops[t]; ++i)
  {
    const POp& op = prog[t][i];
    int neg = 0;
    if(op.f < 100)
    {
      unsigned long long r = aop_call(kind, var, op.f, op.a, op.b, &neg);
      log_call(t, afun_names[op.f], op.a, op.b, r, neg);
    }
    else if(op.f == X_ACQ)
    {
      for(;;)
      {
        unsigned long long r = aop_call(kind, var, F_TAS, 0, 0, &neg);
        log_call(t, "tas", 0, 0, r, neg);
        if(r == 0) break;
      }
      log_call(t, "enter", 0, 0, 0, 0);
    }
    else if(op.f == X_REL)
    {
      log_call(t, "leave", 0, 0, 0, 0);
      ++leaves;
      aop_call(kind, var, F_STORE, 0, 0, &neg);
      log_call(t, "store", 0, 0, 0, 0);
    }
    else if(op.f == X_CSR || op.f == X_CSW)
    {
      static long tmp[MAXT + 1];
      sched_point("cs");
      if(op.f == X_CSR) tmp[t] = counter; else counter = tmp[t] + 1;
    }
  }
}

extern "C" void scenario_setup(void)
{
  char buf[512];
  strcpy(buf, "i32");
  sched_param_str("kind", buf, sizeof(buf));
  kind = akind_of(buf);
  if(kind < 0) { fprintf(stderr, "DRIVER-ERROR: unknown kind %s\n", buf); exit(3); }
  nl = akind_limbs(kind);
  strcpy(buf, "0");
  sched_param_str("init", buf, sizeof(buf));
  avar_set(kind, var, ahex(buf) & akind_mask(kind));
  nthreads = sched_param_int("n", 2);
  if(nthreads > MAXT) nthreads = MAXT;
  char sv[64];
  alimbs(sv, sizeof(sv), avar_get(kind, var), nl);
  sched_event("\"op\":\"setup\",\"kind\":\"%s\",\"sg\":%s,\"init\":%s", akind_names[kind], akind_signed(kind) ? "true" : "false", sv);
  for(int t = 1; t <= nthreads; ++t)
  {
    char name[8];
    snprintf(name, sizeof(name), "p%d", t);
    buf[0] = 0;
    sched_param_str(name, buf, sizeof(buf));
    nops[t] = 0;
    char* save = 0;
    for(char* tok = strtok_r(buf, ",", &save); tok && nops[t] < MAXOPS; tok = strtok_r(0, ",", &save))
    {
      POp op = {0, 0, 0};
      char* c1 = strchr(tok, ':');
      char* c2 = c1 ? strchr(c1 + 1, ':') : 0;
      if(c1) *c1 = 0;
      if(c2) *c2 = 0;
      if(!strcmp(tok, "acq")) op.f = X_ACQ; else if(!strcmp(tok, "rel")) op.f = X_REL;
      else if(!strcmp(tok, "csr")) op.f = X_CSR; else if(!strcmp(tok, "csw")) op.f = X_CSW;
      else op.f = afun_of(tok);
      if(op.f < 0 || (op.f < 100 && !aop_declared(kind, op.f)) || (op.f >= 100 && kind == K_PTR)) { fprintf(stderr, "DRIVER-ERROR: bad op %s for kind %s\n", tok, akind_names[kind]); exit(3); }
      if(c1) op.a = ahex(c1 + 1);
      if(c2) op.b = ahex(c2 + 1);
      prog[t][nops[t]++] = op;
    }
  }
  for(int t = 1; t <= nthreads; ++t) sched_spawn(run_prog, (void*)(long)t);
}

extern "C" void scenario_finish(void)
{
  char sv[64];
  alimbs(sv, sizeof(sv), avar_get(kind, var), nl);
  sched_event("\"op\":\"final\",\"v\":%s,\"cnt\":%ld,\"leaves\":%d", sv, (long)counter, leaves);
}
