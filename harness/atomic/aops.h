// Table of every function / overload declared in nstd's Atomic.hpp, callable by (kind, function, bit-pattern arguments).
// Shared by the scheduler scenario (scn_atomic.cpp, compiled with -DNSTD_VERIF: every access is a scheduling point)
// and the native real-thread driver (drv_atomic.cpp, compiled without the hook).  C headers only.
#pragma once
#include <stdio.h>
#include <stdlib.h>
#include <string.h>
#include <nstd/Atomic.hpp>

enum AKind { K_I32 = 0, K_U32, K_I64, K_U64, K_PTR, K_NKINDS };
enum AFun { F_INC = 0, F_DEC, F_FAA, F_SWAP, F_CAS, F_TAS, F_LOAD, F_STORE, F_FENCE, F_NFUNS };
static const char* const akind_names[] = {"i32", "u32", "i64", "u64", "ptr"};
static const char* const afun_names[] = {"inc", "dec", "faa", "swap", "cas", "tas", "load", "store", "fence"};
struct ACell { char c; };
union AVar
{
  volatile int32 i32; volatile uint32 u32; volatile int64 i64; volatile uint64 u64; ACell* volatile p;
  unsigned long long raw;
};

static int akind_of(const char* s) { for(int i = 0; i < K_NKINDS; ++i) if(!strcmp(s, akind_names[i])) return i; return -1; }
static int afun_of(const char* s) { for(int i = 0; i < F_NFUNS; ++i) if(!strcmp(s, afun_names[i])) return i; return -1; }
static int akind_limbs(int k) { return (k == K_I32 || k == K_U32) ? 2 : 4; }
static int akind_signed(int k) { return k == K_I32 || k == K_I64; }
static unsigned long long akind_mask(int k) { return akind_limbs(k) == 2 ? 0xffffffffULL : ~0ULL; }
// does Atomic.hpp declare function f for operands of kind k?
static int aop_declared(int k, int f) { return k != K_PTR || f == F_SWAP || f == F_CAS || f == F_LOAD || f == F_STORE || f == F_FENCE; }

static unsigned long long apat(int32 r) { return (unsigned long long)(uint32)r; }
static unsigned long long apat(uint32 r) { return (unsigned long long)r; }
static unsigned long long apat(int64 r) { return (unsigned long long)r; }
static unsigned long long apat(uint64 r) { return (unsigned long long)r; }

// plain (non-atomic, no hook) access to the bit pattern of the variable
static void avar_set(int k, AVar& x, unsigned long long pat)
{
  x.raw = 0;
  switch(k) { case K_I32: x.i32 = (int32)(uint32)pat; break; case K_U32: x.u32 = (uint32)pat; break; case K_I64: x.i64 = (int64)pat; break;
              case K_U64: x.u64 = (uint64)pat; break; default: x.p = (ACell*)(usize)pat; }
}
static unsigned long long avar_get(int k, const AVar& x)
{
  switch(k) { case K_I32: return apat((int32)x.i32); case K_U32: return apat((uint32)x.u32); case K_I64: return apat((int64)x.i64);
              case K_U64: return apat((uint64)x.u64); default: return (unsigned long long)(usize)x.p; }
}

#define AOPS_INT(T, fld) \
  switch(f) { \
  case F_INC: { T r = Atomic::increment(x.fld); *neg = r < 0; return apat(r); } \
  case F_DEC: { T r = Atomic::decrement(x.fld); *neg = r < 0; return apat(r); } \
  case F_FAA: { T r = Atomic::fetchAndAdd(x.fld, (T)a); *neg = r < 0; return apat(r); } \
  case F_SWAP: { T r = Atomic::swap(x.fld, (T)a); *neg = r < 0; return apat(r); } \
  case F_CAS: { T r = Atomic::compareAndSwap(x.fld, (T)a, (T)b); *neg = r < 0; return apat(r); } \
  case F_TAS: { T r = Atomic::testAndSet(x.fld); *neg = r < 0; return apat(r); } \
  case F_LOAD: { T r = Atomic::load(x.fld); *neg = r < 0; return apat(r); } \
  case F_STORE: Atomic::store(x.fld, (T)a); return 0; \
  default: Atomic::memoryBarrier(); return 0; }

// one call of Atomic::<f> on x; a, b: argument bit patterns; returns the result's bit pattern (zero-extended), *neg: the result
// is negative in the declared return type
static unsigned long long aop_call(int k, AVar& x, int f, unsigned long long a, unsigned long long b, int* neg)
{
  *neg = 0;
  switch(k)
  {
  case K_I32: AOPS_INT(int32, i32)
  case K_U32: AOPS_INT(uint32, u32)
  case K_I64: AOPS_INT(int64, i64)
  case K_U64: AOPS_INT(uint64, u64)
  default:
    switch(f)
    {
    case F_SWAP: return (unsigned long long)(usize)Atomic::swap(x.p, (ACell*)(usize)a);
    case F_CAS: return (unsigned long long)(usize)Atomic::compareAndSwap(x.p, (ACell*)(usize)a, (ACell*)(usize)b);
    case F_LOAD: return (unsigned long long)(usize)Atomic::load(x.p);
    case F_STORE: Atomic::store(x.p, (ACell*)(usize)a); return 0;
    case F_FENCE: Atomic::memoryBarrier(); return 0;
    default: fprintf(stderr, "DRIVER-ERROR: Atomic has no function %s for pointers\n", afun_names[f]); exit(3);
    }
  }
}

// "[l0,l1(,l2,l3)]": little-endian 16-bit limbs
static int alimbs(char* out, size_t size, unsigned long long v, int nl)
{
  int n = snprintf(out, size, "[");
  for(int i = 0; i < nl; ++i) n += snprintf(out + n, size - n, i ? ",%u" : "%u", (unsigned)((v >> (16 * i)) & 0xffff));
  n += snprintf(out + n, size - n, "]");
  return n;
}
static unsigned long long ahex(const char* s) { return strtoull(s, 0, 16); }
