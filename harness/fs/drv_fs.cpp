// Driver for property C19: nstd::File path functions, File/Directory operations in a scratch tree.
//
// usage: drv_fs <ops> <trace> [<scratch base dir>]
// Path ops (no file system access):
//   path x<hex>            -> simplifyPath (twice), getDirectoryName, getBaseName, getStem, getExtension, isAbsolutePath
//   rel x<from> x<to>      -> getRelativePath
// File system ops (paths are RELATIVE names such as a/b inside the scratch tree, "-" = none):
//   open p k | write x<hex> | seek off whence | readall | close | put p k x<hex> | get p | copy p q k |
//   rename p q k | unlink p | dcreate p | dcreated p k (create p/. or p/..) | dunlink p k | symlink p k | fexists p | dexists p
// The driver creates <base>/fs.<pid>/{in,out}, chdir()s into .../in and never touches anything outside
// <base>/fs.<pid>, which it removes at exit.  .../out is the "outside" sentinel tree that symbolic links point
// to.  After every op it logs a snapshot (path components, type, content) of both trees.
#include "drv.h"
#include <errno.h>
#include <fcntl.h>
#include <pthread.h>
#include <signal.h>
#include <sys/resource.h>
#include <dirent.h>
#include <sys/stat.h>
#include <sys/types.h>
#include <nstd/File.hpp>
#include <nstd/Directory.hpp>

static char g_base[512] = "";     // <base>/fs.<pid>
static char g_din[600] = "";
static char g_dout[600] = "";
static char g_lnF[700] = "";      // target of linkF: <out>/s
static char g_lnD[700] = "";      // target of linkD: <out>/sub
static File* g_file = 0;          // the one file handle of the model
static int g_fd_base = -1;
static int g_fs_used = 0;
static int g_setup_gen = 0;
static char* g_out_ref = 0;       // rendering of the outside tree right after set-up

// ------------------------------------------------------------------------------------------- own (POSIX) helpers
static void die(const char* what) { fprintf(stderr, "DRIVER-ERROR: %s: %s\n", what, strerror(errno)); exit(3); }

// remove everything below directory fd (never follows symbolic links, never leaves the directory)
static void rm_below(int dfd)
{
  DIR* d = fdopendir(dup(dfd));
  if(!d) die("fdopendir");
  rewinddir(d);
  struct dirent* e;
  while((e = readdir(d)))
  {
    if(!strcmp(e->d_name, ".") || !strcmp(e->d_name, "..")) continue;
    struct stat st;
    if(fstatat(dfd, e->d_name, &st, AT_SYMLINK_NOFOLLOW) != 0) continue;
    if(S_ISDIR(st.st_mode))
    {
      int sub = openat(dfd, e->d_name, O_RDONLY | O_DIRECTORY | O_NOFOLLOW);
      if(sub < 0) die("openat");
      rm_below(sub);
      close(sub);
      if(unlinkat(dfd, e->d_name, AT_REMOVEDIR) != 0) die("unlinkat dir");
    }
    else if(unlinkat(dfd, e->d_name, 0) != 0) die("unlinkat");
  }
  closedir(d);
}
static void put_file(const char* path, const char* d, int n)
{
  int fd = open(path, O_CREAT | O_TRUNC | O_WRONLY, 0644);
  if(fd < 0) die(path);
  if(n && write(fd, d, n) != n) die("write");
  close(fd);
}
static int snap_first;
static void snap(const char* dirpath, const char** comps, int ncomp);
static void fs_setup()
{
  if(g_fd_base < 0)
  {
    if(!g_base[0]) { fprintf(stderr, "DRIVER-ERROR: file system op without scratch base\n"); exit(3); }
    if(mkdir(g_base, 0755) != 0) die(g_base);
    g_fd_base = open(g_base, O_RDONLY | O_DIRECTORY);
    if(g_fd_base < 0) die("open base");
  }
  if(chdir(g_base) != 0) die("chdir base");
  rm_below(g_fd_base);
  if(mkdir(g_din, 0755) != 0 || mkdir(g_dout, 0755) != 0) die("mkdir in/out");
  // the outside sentinel: out/s = <<7,8>>, out/sub/, out/sub/t = <<9>>
  char p[800];
  put_file(g_lnF, "\7\10", 2);
  if(mkdir(g_lnD, 0755) != 0) die("mkdir sub");
  snprintf(p, sizeof(p), "%s/t", g_lnD); put_file(p, "\11", 1);
  if(chdir(g_din) != 0) die("chdir");
  free(g_out_ref); g_out_ref = 0; ++g_setup_gen;
  {
    const char* comps[8]; char* buf = 0; size_t len = 0;
    FILE* keep = g_out;
    g_out = open_memstream(&buf, &len);
    snap_first = 1; snap(g_dout, comps, 0);
    fclose(g_out);
    g_out = keep;
    g_out_ref = buf;
    // the reference itself is checked once per execution by the trace spec (first event logs it in full)
  }
}
static void fs_teardown()
{
  if(g_fd_base >= 0)
  {
    if(chdir("/") != 0) {}
    rm_below(g_fd_base);
    close(g_fd_base);
    g_fd_base = -1;
    rmdir(g_base);
  }
}

// snapshot of a tree as JSON array of {"p":[components],"t":"dir|file|linkF|linkD|other","c":[bytes]}
static void snap(const char* dirpath, const char** comps, int ncomp)
{
  DIR* d = opendir(dirpath);
  if(!d) return;
  char names[32][32]; int nn = 0;
  struct dirent* e;
  while((e = readdir(d)))
  {
    if(!strcmp(e->d_name, ".") || !strcmp(e->d_name, "..")) continue;
    if(nn < 32) { strncpy(names[nn], e->d_name, 31); names[nn][31] = 0; ++nn; }
  }
  closedir(d);
  for(int i = 0; i < nn; ++i) for(int j = i + 1; j < nn; ++j) if(strcmp(names[i], names[j]) > 0)
  { char t[32]; strcpy(t, names[i]); strcpy(names[i], names[j]); strcpy(names[j], t); }
  for(int i = 0; i < nn; ++i)
  {
    char path[900];
    snprintf(path, sizeof(path), "%s/%s", dirpath, names[i]);
    struct stat st;
    if(lstat(path, &st) != 0) continue;
    fputs(snap_first ? "{\"p\":[" : ",{\"p\":[", g_out); snap_first = 0;
    for(int k = 0; k < ncomp; ++k) fprintf(g_out, "\"%s\",", comps[k]);
    fprintf(g_out, "\"%s\"],\"t\":", names[i]);
    if(S_ISDIR(st.st_mode))
    {
      fputs("\"dir\",\"c\":[]}", g_out);
      if(ncomp < 6) { comps[ncomp] = names[i]; snap(path, comps, ncomp + 1); }
    }
    else if(S_ISLNK(st.st_mode))
    {
      char tgt[800]; ssize_t n = readlink(path, tgt, sizeof(tgt) - 1); tgt[n < 0 ? 0 : n] = 0;
      fprintf(g_out, "\"%s\",\"c\":[]}", !strcmp(tgt, g_lnF) ? "linkF" : !strcmp(tgt, g_lnD) ? "linkD" : "other");
    }
    else if(S_ISREG(st.st_mode))
    {
      fputs("\"file\",\"c\":[", g_out);
      int fd = open(path, O_RDONLY);
      unsigned char buf[256]; ssize_t n = fd < 0 ? 0 : read(fd, buf, sizeof(buf));
      if(fd >= 0) close(fd);
      for(ssize_t k = 0; k < n; ++k) fprintf(g_out, k ? ",%d" : "%d", (int)buf[k]);
      fputs("]}", g_out);
    }
    else fputs("\"other\",\"c\":[]}", g_out);
  }
}

static void j_pathcomps(const char* key, const char* p)
{
  fprintf(g_out, ",\"%s\":[", key);
  if(p && strcmp(p, "-"))
  {
    const char* s = p; int first = 1;
    while(*s)
    {
      const char* e = strchr(s, '/'); if(!e) e = s + strlen(s);
      fprintf(g_out, first ? "\"%.*s\"" : ",\"%.*s\"", (int)(e - s), s); first = 0;
      s = *e ? e + 1 : e;
    }
  }
  fputc(']', g_out);
}

static void fs_log(const char* op, const char* p, const char* q, long k, const unsigned char* d, int dn, int dIsOff, long off,
                   long long r, const unsigned char* rd, long rdn)
{
  j_begin(op);
  j_pathcomps("p", p);
  j_pathcomps("q", q);
  j_int("k", k);
  if(dIsOff) fprintf(g_out, ",\"d\":[%ld]", off); else j_bytes("d", d, dn);
  j_int("r", r);
  j_bytes("rd", rd, rdn);
  const char* comps[8];
  fputs(",\"tree\":[", g_out); snap_first = 1; snap(g_din, comps, 0);
  fputs("]", g_out);
  // the outside tree: logged in full only when it differs from its rendering right after set-up
  {
    char* buf = 0; size_t len = 0;
    FILE* keep = g_out;
    g_out = open_memstream(&buf, &len);
    snap_first = 1; snap(g_dout, comps, 0);
    fclose(g_out);
    g_out = keep;
    if(!g_out_ref) g_out_ref = strdup(buf);
    static int shown = 0;                         // the first event after every set-up shows the tree in full
    int same = !strcmp(buf, g_out_ref) && shown == g_setup_gen;
    shown = g_setup_gen;
    fprintf(g_out, ",\"outsame\":%s,\"out\":[%s]", same ? "true" : "false", same ? "" : buf);
    free(buf);
  }
  int open = g_file && g_file->isOpen();
  j_int("h", open);
  j_int("hpos", open ? (long long)g_file->seek(0, File::currentPosition) : 0);
  j_end();
}

// is there a symbolic link to a directory strictly above the last component of p?
static int linkd_above(const char* p)
{
  char buf[256]; strncpy(buf, p, 255); buf[255] = 0;
  for(char* s = strchr(buf, '/'); s; s = strchr(s + 1, '/'))
  {
    *s = 0;
    struct stat l, t;
    if(lstat(buf, &l) == 0 && S_ISLNK(l.st_mode) && stat(buf, &t) == 0 && S_ISDIR(t.st_mode)) return 1;
    *s = '/';
  }
  return 0;
}
static int kind_of(const char* p)      // 0 none, 1 dir, 2 file, 3 link
{
  struct stat l;
  if(lstat(p, &l) != 0) return 0;
  return S_ISDIR(l.st_mode) ? 1 : S_ISLNK(l.st_mode) ? 3 : 2;
}
static int is_linkF(const char* p)
{
  char tgt[800]; ssize_t n = readlink(p, tgt, sizeof(tgt) - 1);
  if(n < 0) return 0;
  tgt[n] = 0;
  return !strcmp(tgt, g_lnF);
}

// ------------------------------------------------------------------------------------------- driver interface
void drv_init(int argc, char** argv)
{
  if(argc > 3)
  {
    snprintf(g_base, sizeof(g_base), "%s/fs.%d", argv[3], (int)getpid());
    snprintf(g_din, sizeof(g_din), "%s/in", g_base);
    snprintf(g_dout, sizeof(g_dout), "%s/out", g_base);
    snprintf(g_lnF, sizeof(g_lnF), "%s/s", g_dout);
    snprintf(g_lnD, sizeof(g_lnD), "%s/sub", g_dout);
  }
  atexit(fs_teardown);
}
void drv_fini() { delete g_file; g_file = 0; fs_teardown(); free(g_out_ref); g_out_ref = 0; }
void drv_reset()
{
  delete g_file; g_file = 0;
  g_fs_used = 0;
}

static String tok_string()
{
  int n; unsigned char* d = tok_bytes(&n, 0);
  String s((const char*)d, (usize)n);     // copies from the exact-size block
  free(d);
  return s;
}
static void j_strbytes(const char* k, const String& s) { j_bytes(k, (const unsigned char*)(const char*)s, (long)s.length()); }

struct RaceJob { const String* path; int ok; };
static pthread_barrier_t g_raceBar;
static void* race_thread(void* arg)
{
  RaceJob* j = (RaceJob*)arg;
  String mine(*j->path);               // (an own copy: the threads share nothing but the file system)
  pthread_barrier_wait(&g_raceBar);
  j->ok = Directory::create(mine) ? 1 : 0;
  return 0;
}
void drv_apply(const char* op)
{
  if(!strcmp(op, "path"))
  {
    String p = tok_string();
    String simp = File::simplifyPath(p);
    String simp2 = File::simplifyPath(simp);
    j_begin("path");
    j_strbytes("p", p); j_strbytes("simp", simp); j_strbytes("simp2", simp2);
    j_strbytes("dir", File::getDirectoryName(p)); j_strbytes("base", File::getBaseName(p));
    j_strbytes("stem", File::getStem(p)); j_strbytes("ext", File::getExtension(p));
    // the two-argument forms: base name / stem with a given extension (with and without the dot) removed
    {
      String ext = File::getExtension(p), dext = String(".") + ext, other("zq");
      j_strbytes("be", File::getBaseName(p, ext)); j_strbytes("bde", File::getBaseName(p, dext));
      j_strbytes("se", File::getStem(p, ext)); j_strbytes("bz", File::getBaseName(p, other));
    }
    j_bool("abs", File::isAbsolutePath(p));
    j_end();
    return;
  }
  if(!strcmp(op, "rel"))
  {
    String from = tok_string(), to = tok_string();
    j_begin("rel");
    j_strbytes("from", from); j_strbytes("to", to); j_strbytes("r", File::getRelativePath(from, to));
    j_end();
    return;
  }
  // ---- file system ops
  if(!g_fs_used) { fs_setup(); g_fs_used = 1; g_file = new File; }
  char p[64] = "-", q[64] = "-";
  long k = 0, off = 0; int dn = 0; unsigned char* d = 0; int dIsOff = 0;
  long long r = 0; String rd; int nop = 0;
  int handleOp = !strcmp(op, "write") || !strcmp(op, "seek") || !strcmp(op, "readall") || !strcmp(op, "close") || !strcmp(op, "read") || !strcmp(op, "size");
  if(!strcmp(op, "write")) d = tok_bytes(&dn, 0);
  else if(!strcmp(op, "seek")) { off = tok_int(); k = tok_int(); dIsOff = 1; }
  else if(!strcmp(op, "read")) { k = tok_int(); if(k < 0 || k > 4096) nop = 1; }
  else if(!handleOp)
  {
    strncpy(p, tok_next(), 63);
    if(!strcmp(op, "copy") || !strcmp(op, "copylim") || !strcmp(op, "rename")) strncpy(q, tok_next(), 63);
    if(strcmp(op, "get") && strcmp(op, "unlink") && strcmp(op, "dcreate") && strcmp(op, "dcreaterace") && strcmp(op, "fexists") && strcmp(op, "dexists")) k = tok_int();
    if(!strcmp(op, "put")) d = tok_bytes(&dn, 0);
  }
  // safety guards: the same exclusions as FsModel!Enabled that could act outside the scratch tree or on descriptor 0
  if(handleOp && !g_file->isOpen()) nop = 1;
  if(strcmp(p, "-") && (strstr(p, "..") || p[0] == '/' || linkd_above(p))) nop = 1;
  if(strcmp(q, "-") && (strstr(q, "..") || q[0] == '/' || linkd_above(q))) nop = 1;
  if(!nop)
  {
    int kp = strcmp(p, "-") ? kind_of(p) : 0, kq = strcmp(q, "-") ? kind_of(q) : 0;
    if(!strcmp(op, "put") && kp == 3) nop = 1;
    if(!strcmp(op, "open") && ((kp == 3 && (!is_linkF(p) || (k & 2))) || (kp == 1 && !(k & 2)))) nop = 1;
    if(!strcmp(op, "get") && (kp == 1 || (kp == 3 && !is_linkF(p)))) nop = 1;
    if((!strcmp(op, "copy") || !strcmp(op, "copylim")) && ((kq == 3 && (k & 1) != 1) || (!strcmp(p, q) && !strcmp(op, "copylim")))) nop = 1;
  }
  if(nop) { fs_log("nop", p, q, k, d ? d : (const unsigned char*)"", dn, dIsOff, off, 0, (const unsigned char*)"", 0); free(d); return; }

  String sp(p, String::length(p)), sq(q, String::length(q));
  if(!strcmp(op, "open")) r = g_file->open(sp, (uint)k) ? 1 : 0;
  else if(!strcmp(op, "write")) r = (long long)g_file->write(d, (usize)dn);
  else if(!strcmp(op, "seek")) r = (long long)g_file->seek(off, k == 0 ? File::setPosition : k == 1 ? File::currentPosition : File::endPosition);
  else if(!strcmp(op, "readall")) { r = g_file->readAll(rd) ? 1 : 0; }
  else if(!strcmp(op, "read"))
  {
    // exact-size heap buffer: a read that stores more than it was asked for is an ASan report
    char* buf = (char*)malloc((size_t)k + 1);
    r = (long long)g_file->read(buf, (usize)k);
    if(r > 0) rd = String(buf, (usize)r);
    free(buf);
  }
  else if(!strcmp(op, "size")) r = (long long)g_file->size();
  else if(!strcmp(op, "close")) { g_file->close(); r = 1; }
  else if(!strcmp(op, "put"))
  {
    File f;
    if(f.open(sp, (uint)k)) r = f.write(String((const char*)d, (usize)dn)) ? 1 : 0;
  }
  else if(!strcmp(op, "get")) r = File::readAll(sp, rd) ? 1 : 0;
  else if(!strcmp(op, "copy")) r = File::copy(sp, sq, k == 1) ? 1 : 0;
  else if(!strcmp(op, "copylim"))
  {
    // File::copy while no file may grow beyond k / 2 bytes (stands for a full disk / quota); nothing is logged inside the window
    struct rlimit old, lim;
    getrlimit(RLIMIT_FSIZE, &old);
    lim = old; lim.rlim_cur = (rlim_t)(k / 2);
    signal(SIGXFSZ, SIG_IGN);
    setrlimit(RLIMIT_FSIZE, &lim);
    r = File::copy(sp, sq, (k & 1) == 1) ? 1 : 0;
    setrlimit(RLIMIT_FSIZE, &old);
  }
  else if(!strcmp(op, "rename")) r = File::rename(sp, sq, k == 1) ? 1 : 0;
  else if(!strcmp(op, "unlink")) r = File::unlink(sp) ? 1 : 0;
  else if(!strcmp(op, "dcreate")) r = Directory::create(sp) ? 1 : 0;
  else if(!strcmp(op, "dcreaterace"))
  {
    RaceJob jobs[3]; pthread_t th[3];
    pthread_barrier_init(&g_raceBar, 0, 3);
    for(int t = 0; t < 3; ++t) { jobs[t].path = &sp; jobs[t].ok = 0; pthread_create(&th[t], 0, race_thread, &jobs[t]); }
    for(int t = 0; t < 3; ++t) { pthread_join(th[t], 0); r += jobs[t].ok; }
    pthread_barrier_destroy(&g_raceBar);
  }
  else if(!strcmp(op, "dcreateroot")) r = Directory::create(k == 0 ? String("/") : String("/tmp")) ? 1 : 0;     // exist already: must report success
  else if(!strcmp(op, "dcreated")) { String dp(sp); dp.append(k == 1 ? String("/..") : String("/.")); r = Directory::create(dp) ? 1 : 0; }
  else if(!strcmp(op, "dunlink")) r = Directory::unlink(sp, k == 1) ? 1 : 0;
  else if(!strcmp(op, "symlink")) r = File::createSymbolicLink(String(k == 0 ? g_lnF : g_lnD, String::length(k == 0 ? g_lnF : g_lnD)), sp) ? 1 : 0;
  else if(!strcmp(op, "fexists")) r = File::exists(sp) ? 1 : 0;
  else if(!strcmp(op, "dexists")) r = Directory::exists(sp) ? 1 : 0;
  else { fprintf(stderr, "DRIVER-ERROR: unknown op %s\n", op); exit(3); }
  if(r == 0 && (!strcmp(op, "readall") || !strcmp(op, "get"))) rd = String();
  fs_log(op, p, q, k, d ? d : (const unsigned char*)"", dn, dIsOff, off, r, (const unsigned char*)(const char*)rd, (long)rd.length());
  free(d);
}
