// Driver for nstd::Xml (property C16): parser totality, serialise/parse round trip, copy independence of values.
//   parse x<hex>      Xml::Parser::parse on an exact-size NUL-terminated heap copy        -> text, ok, line, col
//   rt <mode> <tree>  build <tree> as Xml::Element, toString (mode 0: Element::toString, 1: Xml::toString with the
//                     declaration), Xml::parse of an exact-size copy of that text        -> orig, text, ok, got
//   <tree>: E <name> <nattr> (<name> <value>)*nattr <ncontent> <child>*ncontent ;  <child>: <tree> | T <text>
//   ptree x<hex> <tree>  parse a text written by the generator for <tree> (comments, PIs, entities)  -> as rt, mode 2
//   value ops on three Xml::Variant slots (copy independence), every event carries the projection of all slots:
//   vnull i | vtext i <s> | velem i <name> | vcopy i j (copy construct) | vassign i j (copy assign) |
//   vsettype i <name> | vaddtext i <s> | vaddchild i j | vchildtype i <name> | vecopy i j (copy of the Element)
#include "drv.h"
#include <nstd/Document/Xml.hpp>
#include <nstd/Error.hpp>

enum { NV = 3 };
static Xml::Variant* V[NV + 1] = {0, 0, 0, 0};

void drv_init(int, char**) { g_op_timeout = 3; }
static void drop_parser();
void drv_fini() { drop_parser(); for(int i = 1; i <= NV; ++i) { delete V[i]; V[i] = 0; } }
void drv_reset() { drv_fini(); for(int i = 1; i <= NV; ++i) V[i] = new Xml::Variant; }

static void put_bytes(const unsigned char* p, long n)
{
  fputc('[', g_out);
  for(long i = 0; i < n; ++i) fprintf(g_out, i ? ",%d" : "%d", (int)p[i]);
  fputc(']', g_out);
}
static void put_str(const String& s) { put_bytes((const unsigned char*)(const char*)s, (long)s.length()); }

// ---- the driver's own tree ---------------------------------------------------------------------------------------
struct Node
{
  char kind;                        // E or T
  unsigned char* name; int nname;   // element name or text
  int nattr; unsigned char** ak; int* akn; unsigned char** av; int* avn;
  int n; Node** kids;
};
static Node* read_tree()
{
  const char* t = tok_next();
  if(!t) { fprintf(stderr, "DRIVER-ERROR: truncated tree at line %ld\n", g_lineno); exit(3); }
  Node* nd = (Node*)calloc(1, sizeof(Node));
  nd->kind = t[0];
  nd->name = tok_bytes(&nd->nname, 0);
  if(t[0] == 'T') return nd;
  nd->nattr = (int)tok_int();
  nd->ak = (unsigned char**)calloc(nd->nattr + 1, sizeof(void*)); nd->av = (unsigned char**)calloc(nd->nattr + 1, sizeof(void*));
  nd->akn = (int*)calloc(nd->nattr + 1, sizeof(int)); nd->avn = (int*)calloc(nd->nattr + 1, sizeof(int));
  for(int i = 0; i < nd->nattr; ++i) { nd->ak[i] = tok_bytes(&nd->akn[i], 0); nd->av[i] = tok_bytes(&nd->avn[i], 0); }
  nd->n = (int)tok_int();
  nd->kids = (Node**)calloc(nd->n + 1, sizeof(Node*));
  for(int i = 0; i < nd->n; ++i) nd->kids[i] = read_tree();
  return nd;
}
static void free_tree(Node* nd)
{
  if(!nd) return;
  free(nd->name);
  for(int i = 0; i < nd->nattr; ++i) { free(nd->ak[i]); free(nd->av[i]); }
  free(nd->ak); free(nd->av); free(nd->akn); free(nd->avn);
  for(int i = 0; i < nd->n; ++i) free_tree(nd->kids[i]);
  free(nd->kids); free(nd);
}
static void put_tree(const Node* nd)
{
  if(nd->kind == 'T') { fputs("{\"t\":\"t\",\"v\":", g_out); put_bytes(nd->name, nd->nname); fputc('}', g_out); return; }
  fputs("{\"t\":\"e\",\"n\":", g_out); put_bytes(nd->name, nd->nname);
  fputs(",\"a\":[", g_out);
  for(int i = 0; i < nd->nattr; ++i)
  {
    fputs(i ? ",{\"k\":" : "{\"k\":", g_out); put_bytes(nd->ak[i], nd->akn[i]);
    fputs(",\"v\":", g_out); put_bytes(nd->av[i], nd->avn[i]); fputc('}', g_out);
  }
  fputs("],\"c\":[", g_out);
  for(int i = 0; i < nd->n; ++i) { if(i) fputc(',', g_out); put_tree(nd->kids[i]); }
  fputs("]}", g_out);
}
static void build(const Node* nd, Xml::Element& e)
{
  e.type = String((const char*)nd->name, nd->nname);
  for(int i = 0; i < nd->nattr; ++i)
    e.attributes.append(String((const char*)nd->ak[i], nd->akn[i]), String((const char*)nd->av[i], nd->avn[i]));
  for(int i = 0; i < nd->n; ++i)
  {
    const Node* k = nd->kids[i];
    if(k->kind == 'T') e.content.append(Xml::Variant(String((const char*)k->name, k->nname)));
    else
    {
      Xml::Element child; build(k, child);
      e.content.append(Xml::Variant(child));
    }
  }
}
// canonical projection of real values (the observation)
static void put_variant(const Xml::Variant& v);
static void put_element(const Xml::Element& e)
{
  fputs("{\"t\":\"e\",\"n\":", g_out); put_str(e.type);
  fputs(",\"a\":[", g_out);
  bool first = true;
  for(HashMap<String, String>::Iterator i = e.attributes.begin(), end = e.attributes.end(); i != end; ++i)
  {
    fputs(first ? "{\"k\":" : ",{\"k\":", g_out); first = false; put_str(i.key());
    fputs(",\"v\":", g_out); put_str(*i); fputc('}', g_out);
  }
  fputs("],\"c\":[", g_out);
  first = true;
  for(List<Xml::Variant>::Iterator i = e.content.begin(), end = e.content.end(); i != end; ++i)
  {
    if(!first) fputc(',', g_out);
    first = false;
    put_variant(*i);
  }
  fputs("]}", g_out);
}
static void put_variant(const Xml::Variant& v)
{
  switch(v.getType())
  {
  case Xml::Variant::elementType: put_element(v.toElement()); break;
  case Xml::Variant::textType: { String s = v.toString(); fputs("{\"t\":\"t\",\"v\":", g_out); put_str(s); fputc('}', g_out); break; }
  default: fputs("{\"t\":\"z\",\"v\":[]}", g_out); break;
  }
}
static void observe_slots(const char* op, int i, int j, const unsigned char* s, int sn)
{
  j_begin(op); j_int("i", i); j_int("j", j); j_bytes("s", s ? s : (const unsigned char*)"", sn);
  fputs(",\"val\":[", g_out);
  for(int k = 1; k <= NV; ++k) { if(k > 1) fputc(',', g_out); put_variant(*V[k]); }
  fputc(']', g_out);
  j_end();
}

static Xml::Parser* g_parser = 0;
// the Element every round trip parses into: ONE per execution, still holding the previous document when the next one is
// parsed (parse replaces the element, it does not append to it); every third round trip hands the text over inside that
// very element (String overload: the text must stay alive while the element is being replaced)
static Xml::Element* g_got = 0; static long g_rtCount = 0;
static void drop_parser() { delete g_parser; g_parser = 0; delete g_got; g_got = 0; g_rtCount = 0; }

void drv_apply(const char* op)
{
  if(!strcmp(op, "parse"))
  {
    int n; unsigned char* d = tok_bytes(&n, 1);
    int ok, line = 0, col = 0;
    {
      // ONE parser object per execution, used for every document (state of an earlier document must not leak into a later one)
      if(!g_parser) g_parser = new Xml::Parser;
      Xml::Parser& parser = *g_parser; Xml::Element element;
      String text; text.attach((const char*)d, n);       // views the exact-size terminated copy
      ok = parser.parse(text, element) ? 1 : 0;
      if(!ok) { line = parser.getErrorLine(); col = parser.getErrorColumn(); }
    }
    j_begin("parse"); j_bytes("text", d, n); j_bool("ok", ok); j_int("line", line); j_int("col", col); j_end();
    free(d);
  }
  else if(!strcmp(op, "rt"))
  {
    int mode = (int)tok_int();
    Node* nd = read_tree();
    Xml::Element orig; build(nd, orig);
    String text = mode ? Xml::toString(orig) : orig.toString();
    usize tl = text.length();
    char* copy = (char*)malloc(tl + 1); memcpy(copy, (const char*)text, tl); copy[tl] = 0;
    if(!g_got) g_got = new Xml::Element;
    Xml::Element& got = *g_got;
    bool ok;
    if(++g_rtCount % 3 == 0) { got.type = String(copy, tl); ok = Xml::parse(got.type, got); }
    else ok = Xml::parse((const char*)copy, got);
    j_begin("rt"); j_int("mode", mode); j_key("orig"); put_tree(nd); j_bytes("text", (const unsigned char*)copy, (long)tl); j_bool("ok", ok);
    j_key("got"); if(ok) put_element(got); else fputs("{\"t\":\"none\"}", g_out);
    j_end();
    free(copy); free_tree(nd);
  }
  else if(!strcmp(op, "ptree"))
  {
    int n; unsigned char* d = tok_bytes(&n, 1);
    Node* nd = read_tree();
    Xml::Element got;
    bool ok = Xml::parse((const char*)d, got);
    j_begin("rt"); j_int("mode", 2); j_key("orig"); put_tree(nd); j_bytes("text", d, n); j_bool("ok", ok);
    j_key("got"); if(ok) put_element(got); else fputs("{\"t\":\"none\"}", g_out);
    j_end();
    free(d); free_tree(nd);
  }
  else if(op[0] == 'v')
  {
    int i = (int)tok_int(), j = 0, sn = 0; unsigned char* s = 0;
    if(!strcmp(op, "vnull")) V[i]->clear();
    else if(!strcmp(op, "vtext")) { s = tok_bytes(&sn, 0); *V[i] = String((const char*)s, sn); }
    else if(!strcmp(op, "velem"))
    {
      s = tok_bytes(&sn, 0);
      Xml::Element e; e.type = String((const char*)s, sn);
      delete V[i]; V[i] = new Xml::Variant(e);
    }
    else if(!strcmp(op, "vcopy")) { j = (int)tok_int(); Xml::Variant* c = new Xml::Variant(*V[j]); delete V[i]; V[i] = c; }
    else if(!strcmp(op, "vassign")) { j = (int)tok_int(); *V[i] = *V[j]; }
    else if(!strcmp(op, "vecopy"))
    { // a copy of the Element held by slot j (Element copy constructor), wrapped into a new value
      j = (int)tok_int();
      Xml::Element e(((const Xml::Variant*)V[j])->toElement());
      Xml::Variant* c = new Xml::Variant(e); delete V[i]; V[i] = c;
    }
    else if(!strcmp(op, "vsettype")) { s = tok_bytes(&sn, 0); V[i]->toElement().type = String((const char*)s, sn); }
    else if(!strcmp(op, "vaddtext")) { s = tok_bytes(&sn, 0); V[i]->toElement().content.append(Xml::Variant(String((const char*)s, sn))); }
    else if(!strcmp(op, "vaddchild")) { j = (int)tok_int(); Xml::Variant c(*V[j]); V[i]->toElement().content.append(c); }
    else if(!strcmp(op, "vchildtype"))
    { // rename the first child (made an element if it is not one) through mutable access
      s = tok_bytes(&sn, 0);
      Xml::Element& e = V[i]->toElement();
      if(!e.content.isEmpty()) e.content.front().toElement().type = String((const char*)s, sn);
    }
    else { fprintf(stderr, "DRIVER-ERROR: unknown op %s\n", op); exit(3); }
    observe_slots(op, i, j, s, sn);
    free(s);
  }
  else { fprintf(stderr, "DRIVER-ERROR: unknown op %s\n", op); exit(3); }
}
