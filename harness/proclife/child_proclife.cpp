// Helper child of the X02 driver (harness/proclife/drv_proclife.cpp).  Plain C, no nstd, no sanitizer.
//
//   child_proclife <dir> <id> <code>
//
// 1. writes the VX_* part of the environment it sees, sorted, hex encoded, into <dir>/rep.<id> (atomically: tmp + rename)
// 2. blocks in open(<dir>/fifo.<id>, O_RDONLY) / read() until the driver opens the FIFO for writing and closes it
//    ("release"): that is how the driver decides WHEN this child terminates
// 3. _exit(<code>)
// Never outlives the driver (PR_SET_PDEATHSIG) and never lives longer than 120 s.
#include <errno.h>
#include <fcntl.h>
#include <signal.h>
#include <stdio.h>
#include <stdlib.h>
#include <string.h>
#include <sys/prctl.h>
#include <unistd.h>

extern char** environ;

static int cmp(const void* a, const void* b) { return strcmp(*(const char* const*)a, *(const char* const*)b); }

int main(int argc, char** argv)
{
  if(argc < 4) _exit(90);
  prctl(PR_SET_PDEATHSIG, SIGKILL);
  if(getppid() == 1) _exit(91);
  alarm(120);
  const char* dir = argv[1];
  const char* id = argv[2];
  int code = atoi(argv[3]);
  char tmp[800], rep[800], fifo[800];
  snprintf(tmp, sizeof(tmp), "%s/rep.%s.tmp", dir, id);
  snprintf(rep, sizeof(rep), "%s/rep.%s", dir, id);
  snprintf(fifo, sizeof(fifo), "%s/fifo.%s", dir, id);
  const char* vars[256];
  int n = 0;
  for(char** e = environ; *e && n < 256; ++e)
    if(!strncmp(*e, "VX_", 3)) vars[n++] = *e;
  qsort(vars, n, sizeof(*vars), cmp);
  FILE* f = fopen(tmp, "w");
  if(!f) _exit(92);
  for(int i = 0; i < n; ++i)
  {
    for(const char* p = vars[i]; *p; ++p) fprintf(f, "%02x", (unsigned char)*p);
    fputc('\n', f);
  }
  fprintf(f, "DONE\n");
  fclose(f);
  if(rename(tmp, rep) != 0) _exit(93);
  int fd;
  do fd = open(fifo, O_RDONLY); while(fd < 0 && errno == EINTR);
  if(fd < 0) _exit(94);
  char c;
  for(;;)
  {
    ssize_t r = read(fd, &c, 1);
    if(r < 0 && errno == EINTR) continue;
    if(r <= 0) break;
  }
  _exit(code);
}
