// Driver for extra X02: Process life cycle (start / isRunning / getProcessId / join / kill), Process::wait over several
// children, Process::interrupt, environment variables.
//
// usage: drv_proclife <ops> <trace> <scratch base dir> <helper child binary>
//
// The children are instances of child_proclife (same directory): they report the VX_* part of their environment and
// then block on a FIFO until the driver "releases" them, so the driver decides WHEN a child terminates.
//
// ops (handles c = 1..NH, each a Process object):
//   start c form m code      form 0: start(executable, argc, argv, env), 1: start(commandLine, env);
//                            m 0: empty environment map (= inherit), 1: explicit map {VX_A=explicit=1, VX_E1=one};
//                            the child will exit with <code> when released
//   release c                (environment action) let child c terminate and wait until it IS terminated (zombie)
//   join c at ak delay       Process::join(exitCode) with an asynchronous action (see below)
//   kill c                   Process::kill()
//   wait at ak delay n c1..cn  Process::wait({&p[c1],..,&p[cn]}, n) with an asynchronous action
//   interrupt                Process::interrupt() from the main thread
//   setenv xNAME xVALUE      Process::setEnvironmentVariable
//   getenv xNAME xDEFAULT    Process::getEnvironmentVariable
//   getenvs                  Process::getEnvironmentVariables(), VX_* part logged, rest compared with environ
// asynchronous action: at 0 none, 1 release child ak, 2 Process::interrupt(), 3 release child ak and 25 ms later
// Process::interrupt(); performed by a second thread <delay> ms after the operation was called - ALWAYS performed, the
// event says whether it (at 3: each of the two) began before the operation returned ("fired", "fired2").  That is how "blocks while ..." / "returns after interrupt() from any thread" are observed.
//
// Every event logs the same fields; run/pids = isRunning()/getProcessId() of every handle after the op, alive = whether the
// last child started through the handle still exists as a process (running or zombie) according to the kernel.
#include "drv.h"
#include <errno.h>
#include <fcntl.h>
#include <pthread.h>
#include <sys/stat.h>
#include <sys/types.h>
#include <sys/wait.h>
#include <time.h>
#include <dirent.h>
#include <nstd/Process.hpp>
#include <nstd/Map.hpp>
#include <nstd/String.hpp>

extern char** environ;

#define NH 3
static Process* g_p[NH + 1];
static long g_lastpid[NH + 1];
static long g_allpids[4096];
static int g_nall = 0;
static char g_dir[600] = "";
static char g_child[600] = "";

static long long now_ns()
{
  timespec ts;
  clock_gettime(CLOCK_MONOTONIC, &ts);
  return (long long)ts.tv_sec * 1000000000LL + ts.tv_nsec;
}
static void sleep_us(long us)
{
  timespec ts = {us / 1000000, (us % 1000000) * 1000};
  while(nanosleep(&ts, &ts) != 0 && errno == EINTR) {}
}
static int pid_exists(long pid) { return pid > 0 && ::kill((pid_t)pid, 0) == 0; }
static int pid_is_zombie(long pid)
{
  siginfo_t si;
  si.si_pid = 0;
  return waitid(P_PID, (id_t)pid, &si, WEXITED | WNOWAIT | WNOHANG) == 0 && si.si_pid == (pid_t)pid;
}

// ------------------------------------------------------------------------------------------------- children
static void path_of(char* buf, size_t n, const char* what, int c) { snprintf(buf, n, "%s/%s.%d", g_dir, what, c); }

// lets child c terminate (if it is still running) and waits until it has terminated
static void do_release(int c)
{
  long pid = g_lastpid[c];
  if(!pid_exists(pid) || pid_is_zombie(pid)) return;
  char fifo[700];
  path_of(fifo, sizeof(fifo), "fifo", c);
  for(int i = 0; i < 40000; ++i)
  {
    int fd = open(fifo, O_WRONLY | O_NONBLOCK | O_CLOEXEC);
    if(fd >= 0) { close(fd); break; }
    if(errno != ENXIO && errno != EINTR) break;
    if(!pid_exists(pid) || pid_is_zombie(pid)) return;
    sleep_us(200);
  }
  siginfo_t si;
  while(waitid(P_PID, (id_t)pid, &si, WEXITED | WNOWAIT) != 0 && errno == EINTR) {}
}

static void clean_dir()
{
  DIR* d = opendir(g_dir);
  if(!d) return;
  while(dirent* e = readdir(d))
  {
    if(e->d_name[0] == '.') continue;
    char p[900];
    snprintf(p, sizeof(p), "%s/%s", g_dir, e->d_name);
    unlink(p);
  }
  closedir(d);
}
static void remove_dir()
{
  if(!g_dir[0]) return;
  clean_dir();
  rmdir(g_dir);
}

static void unset_test_vars()
{
  for(;;)
  {
    char name[300];
    name[0] = 0;
    for(char** e = environ; *e; ++e)
      if(!strncmp(*e, "VX_", 3))
      {
        const char* eq = strchr(*e, '=');
        size_t n = eq ? (size_t)(eq - *e) : strlen(*e);
        if(n >= sizeof(name)) n = sizeof(name) - 1;
        memcpy(name, *e, n);
        name[n] = 0;
        break;
      }
    if(!name[0]) break;
    if(unsetenv(name) != 0) break;
  }
}

static void destroy_all()
{
  // 1. every child ever started in this execution is killed by the driver itself ...
  for(int i = 0; i < g_nall; ++i)
    if(pid_exists(g_allpids[i])) ::kill((pid_t)g_allpids[i], SIGKILL);
  // 2. ... reaped through its Process object where that still knows it ...
  for(int c = 1; c <= NH; ++c)
    if(g_p[c])
    {
      if(g_p[c]->isRunning()) g_p[c]->kill();
      delete g_p[c];
      g_p[c] = 0;
    }
  // 3. a pending interrupt (and the helper child the POSIX implementation may have forked for it) is consumed
  fputs("DRIVER-PHASE drain-begin\n", stderr);     // a hang here = interrupt() followed by wait(0, 0) does not return
  Process::interrupt();
  Process::wait(0, 0);
  fputs("DRIVER-PHASE drain-end\n", stderr);
  // 4. whatever is left is reaped directly
  for(int i = 0; i < g_nall; ++i)
    if(pid_exists(g_allpids[i])) { int st; waitpid((pid_t)g_allpids[i], &st, 0); }
  { int st; while(waitpid(-1, &st, WNOHANG) > 0) {} }
  g_nall = 0;
  for(int c = 1; c <= NH; ++c) g_lastpid[c] = 0;
}

void drv_init(int argc, char** argv)
{
  if(argc < 5) { fprintf(stderr, "usage: %s <ops> <trace> <scratch base> <child binary>\n", argv[0]); exit(2); }
  snprintf(g_dir, sizeof(g_dir), "%s/proclife.%d", argv[3], (int)getpid());
  snprintf(g_child, sizeof(g_child), "%s", argv[4]);
  if(mkdir(g_dir, 0755) != 0) { perror(g_dir); exit(3); }
  atexit(remove_dir);
  signal(SIGPIPE, SIG_IGN);
  g_op_timeout = 4;
  unset_test_vars();
}
void drv_fini()
{
  alarm(g_op_timeout);      // drv.h's main() calls this outside its per-op watchdog
  destroy_all();
  unset_test_vars();
  remove_dir();
  g_dir[0] = 0;
  alarm(0);
}
void drv_reset()
{
  destroy_all();
  unset_test_vars();
  clean_dir();
  for(int c = 1; c <= NH; ++c) g_p[c] = new Process;
}

// ------------------------------------------------------------------------------------------------- asynchronous action
struct Async
{
  int type, k, delay_ms;
  long long t_act, t_act2;
  pthread_t th;
  int started;
};
static void* async_main(void* a_)
{
  Async* a = (Async*)a_;
  if(a->delay_ms > 0) sleep_us(a->delay_ms * 1000L);
  a->t_act = now_ns();
  __sync_synchronize();
  if(a->type == 1 || a->type == 3) do_release(a->k);
  else if(a->type == 2) Process::interrupt();
  if(a->type == 3)
  {
    sleep_us(25000);
    a->t_act2 = now_ns();
    __sync_synchronize();
    Process::interrupt();
  }
  return 0;
}
static void async_begin(Async* a)
{
  a->type = (int)tok_int(); a->k = (int)tok_int(); a->delay_ms = (int)tok_int();
  a->t_act = 0; a->t_act2 = 0; a->started = 0;
  if(a->type < 0 || a->type > 3) a->type = 0;
  if((a->type == 1 || a->type == 3) && (a->k < 1 || a->k > NH)) a->type = 0;
  if(a->type != 0)
  {
    if(pthread_create(&a->th, 0, async_main, a) != 0) { perror("pthread_create"); exit(3); }
    a->started = 1;
  }
}
// returns whether the action had begun before the operation returned
static int async_end(Async* a, long long t_ret, int* fired2)
{
  *fired2 = 0;
  if(!a->started) return 0;
  pthread_join(a->th, 0);
  *fired2 = a->type == 3 && a->t_act2 <= t_ret;
  return a->t_act <= t_ret;
}

// ------------------------------------------------------------------------------------------------- logging
static void j_string(const char* k, const char* v)
{
  fprintf(g_out, ",\"%s\":\"", k);
  for(; *v; ++v)
  {
    unsigned char ch = (unsigned char)*v;
    if(ch == '"' || ch == '\\' || ch < 32 || ch > 126) fprintf(g_out, "?");    // the generators never use such characters
    else fputc(ch, g_out);
  }
  fputc('"', g_out);
}
struct Ev
{
  const char* op; int c, x, m, form; int set[8]; int nset;
  int at, ak, fired, fired2; long long r; long xc;
  const char* name; const char* val; const char* out;
  char* envv; char* cenv;       // JSON arrays (malloc'ed) or 0
  int envok;
};
static void ev_init(Ev* e, const char* op)
{
  memset(e, 0, sizeof(*e));
  e->op = op; e->name = ""; e->val = ""; e->out = ""; e->xc = -1; e->envok = 1;
}
static void ev_log(Ev* e)
{
  static const char* atn[] = {"none", "release", "interrupt", "release"};
  j_begin(e->op);
  j_int("ln", g_lineno);
  j_int("c", e->c); j_int("x", e->x); j_int("m", e->m); j_int("form", e->form);
  j_arr_begin("set"); for(int i = 0; i < e->nset; ++i) j_arr_int(e->set[i]); j_arr_end();
  j_str("at", atn[e->at]); j_int("ak", e->ak); j_bool("fired", e->fired);
  j_str("at2", e->at == 3 ? "interrupt" : "none"); j_bool("fired2", e->fired2);
  j_int("r", e->r); j_int("xc", e->xc);
  j_string("name", e->name); j_string("val", e->val); j_string("out", e->out);
  j_key("envv"); j_raw(e->envv ? e->envv : "[]");
  j_key("cenv"); j_raw(e->cenv ? e->cenv : "[]");
  j_bool("envok", e->envok);
  j_arr_begin("run"); for(int c = 1; c <= NH; ++c) j_arr_int(g_p[c]->isRunning() ? 1 : 0); j_arr_end();
  j_arr_begin("pids"); for(int c = 1; c <= NH; ++c) j_arr_int(g_p[c]->getProcessId()); j_arr_end();
  j_arr_begin("alive");
  for(int c = 1; c <= NH; ++c)
  {
    int ex = pid_exists(g_lastpid[c]);
    if(!ex) g_lastpid[c] = 0;       // gone for good: the number may be given to an unrelated process later
    j_arr_int(ex ? 1 : 0);
  }
  j_arr_end();
  j_end();
  free(e->envv); free(e->cenv);
}
static int handle()
{
  int c = (int)tok_int();
  if(c < 1 || c > NH) { fprintf(stderr, "DRIVER-ERROR: bad handle at line %ld\n", g_lineno); exit(3); }
  return c;
}

// JSON array of [name, value] pairs from "NAME=VALUE" strings (sorted by the caller)
static char* pairs_json(char** items, int n)
{
  size_t cap = 16;
  for(int i = 0; i < n; ++i) cap += strlen(items[i]) + 16;
  char* s = (char*)malloc(cap);
  char* o = s;
  *o++ = '[';
  for(int i = 0; i < n; ++i)
  {
    if(i) *o++ = ',';
    const char* eq = strchr(items[i], '=');
    if(!eq) eq = items[i] + strlen(items[i]);
    o += sprintf(o, "[\"");
    for(const char* p = items[i]; p < eq; ++p) *o++ = (*p == '"' || *p == '\\' || (unsigned char)*p < 32 || (unsigned char)*p > 126) ? '?' : *p;
    o += sprintf(o, "\",\"");
    for(const char* p = *eq ? eq + 1 : eq; *p; ++p) *o++ = (*p == '"' || *p == '\\' || (unsigned char)*p < 32 || (unsigned char)*p > 126) ? '?' : *p;
    o += sprintf(o, "\"]");
  }
  *o++ = ']'; *o = 0;
  return s;
}
static int cmp_str(const void* a, const void* b) { return strcmp(*(char* const*)a, *(char* const*)b); }

// ------------------------------------------------------------------------------------------------- ops
static void do_start()
{
  Ev e; ev_init(&e, "start");
  e.c = handle(); e.form = (int)tok_int(); e.m = (int)tok_int(); e.x = (int)tok_int();
  int c = e.c;
  char rep[700], fifo[700], ids[16], codes[16];
  path_of(rep, sizeof(rep), "rep", c);
  path_of(fifo, sizeof(fifo), "fifo", c);
  snprintf(ids, sizeof(ids), "%d", c);
  snprintf(codes, sizeof(codes), "%d", e.x);
  bool wasRunning = g_p[c]->isRunning();
  if(!wasRunning) { unlink(rep); unlink(fifo); if(mkfifo(fifo, 0600) != 0) { perror("mkfifo"); exit(3); } }
  Map<String, String> env;
  if(e.m)
  {
    env.insert("VX_E1", "one");
    env.insert("VX_A", "explicit=1");
  }
  uint32 r;
  if(e.form == 0)
  {
    char* argv[5] = {g_child, g_dir, ids, codes, 0};
    r = g_p[c]->start(String(g_child, String::length(g_child)), 4, argv, env);
  }
  else
  {
    String cl;
    cl.append(g_child, String::length(g_child)); cl.append(' ');
    cl.append(g_dir, String::length(g_dir)); cl.append(' ');
    cl.append(ids, String::length(ids)); cl.append(' ');
    cl.append(codes, String::length(codes));
    r = g_p[c]->start(cl, env);
  }
  e.r = r;
  if(r != 0)
  {
    if(g_nall < 4096) g_allpids[g_nall++] = r;
    if(!wasRunning)
    {
      g_lastpid[c] = r;
      // the child reports its environment; after that it blocks on the FIFO
      FILE* f = 0;
      for(int i = 0; i < 15000 && !f; ++i)
      {
        f = fopen(rep, "r");
        if(!f) { if(!pid_exists(r) || pid_is_zombie(r)) break; sleep_us(200); }
      }
      char* items[300]; int n = 0;
      if(f)
      {
        static char line[8192];
        while(fgets(line, sizeof(line), f) && n < 300)
        {
          if(!strncmp(line, "DONE", 4)) break;
          size_t len = strlen(line) / 2;
          char* s = (char*)malloc(len + 1);
          for(size_t k = 0; k < len; ++k) s[k] = (char)(hexv(line[2 * k]) * 16 + hexv(line[2 * k + 1]));
          s[len] = 0;
          items[n++] = s;
        }
        fclose(f);
        e.cenv = pairs_json(items, n);
        for(int i = 0; i < n; ++i) free(items[i]);
      }
      else
      {
        char* none[1] = {(char*)"NOREPORT="};
        e.cenv = pairs_json(none, 1);
      }
    }
  }
  ev_log(&e);
}

static void do_release_op()
{
  Ev e; ev_init(&e, "release");
  e.c = handle();
  do_release(e.c);
  ev_log(&e);
}

static void do_join()
{
  Ev e; ev_init(&e, "join");
  e.c = handle();
  Async a; async_begin(&a);
  uint32 xc = 999;
  bool r = g_p[e.c]->join(xc);
  long long t = now_ns();
  e.fired = async_end(&a, t, &e.fired2);
  e.at = a.type; e.ak = (a.type == 1 || a.type == 3) ? a.k : 0;
  e.r = r ? 1 : 0; e.xc = xc;
  ev_log(&e);
}

static void do_kill()
{
  Ev e; ev_init(&e, "kill");
  e.c = handle();
  e.r = g_p[e.c]->kill() ? 1 : 0;
  ev_log(&e);
}

static void do_wait()
{
  Ev e; ev_init(&e, "wait");
  Async a; async_begin(&a);
  int n = (int)tok_int();
  if(n < 0 || n > 8) n = 0;
  Process* list[8];
  for(int i = 0; i < n; ++i) { e.set[i] = handle(); list[i] = g_p[e.set[i]]; }
  e.nset = n;
  Process* r = Process::wait(list, (usize)n);
  long long t = now_ns();
  e.fired = async_end(&a, t, &e.fired2);
  e.at = a.type; e.ak = (a.type == 1 || a.type == 3) ? a.k : 0;
  e.r = r ? -1 : 0;
  for(int c = 1; c <= NH; ++c) if(r == g_p[c]) e.r = c;
  ev_log(&e);
}

static void do_interrupt()
{
  Ev e; ev_init(&e, "interrupt");
  Process::interrupt();
  ev_log(&e);
}

static void do_setenv()
{
  Ev e; ev_init(&e, "setenv");
  int n1, n2;
  char* name = (char*)tok_bytes(&n1, 1);
  char* val = (char*)tok_bytes(&n2, 1);
  e.name = name; e.val = val;
  e.r = Process::setEnvironmentVariable(String(name, (usize)n1), String(val, (usize)n2)) ? 1 : 0;
  ev_log(&e);
  free(name); free(val);
}

static void do_getenv()
{
  Ev e; ev_init(&e, "getenv");
  int n1, n2;
  char* name = (char*)tok_bytes(&n1, 1);
  char* val = (char*)tok_bytes(&n2, 1);
  e.name = name; e.val = val;
  String out = Process::getEnvironmentVariable(String(name, (usize)n1), String(val, (usize)n2));
  char* o = (char*)malloc(out.length() + 1);
  memcpy(o, (const char*)out, out.length());
  o[out.length()] = 0;
  e.out = o;
  ev_log(&e);
  free(name); free(val); free(o);
}

static void do_getenvs()
{
  Ev e; ev_init(&e, "getenvs");
  Map<String, String> m = Process::getEnvironmentVariables();
  char* items[300]; int n = 0;
  for(Map<String, String>::Iterator i = m.begin(), end = m.end(); i != end; ++i)
  {
    const String& k = i.key();
    if(k.length() >= 3 && !memcmp((const char*)k, "VX_", 3) && n < 300)
    {
      const String& v = *i;
      char* s = (char*)malloc(k.length() + v.length() + 2);
      memcpy(s, (const char*)k, k.length());
      s[k.length()] = '=';
      memcpy(s + k.length() + 1, (const char*)v, v.length());
      s[k.length() + 1 + v.length()] = 0;
      items[n++] = s;
    }
  }
  qsort(items, n, sizeof(*items), cmp_str);
  e.envv = pairs_json(items, n);
  for(int i = 0; i < n; ++i) free(items[i]);
  // the rest of the environment: every NAME=VALUE of environ is in the map with that value, and nothing else is
  usize cnt = 0;
  for(char** p = environ; *p; ++p)
  {
    const char* eq = strchr(*p, '=');
    if(!eq) continue;
    ++cnt;
    Map<String, String>::Iterator it = m.find(String(*p, (usize)(eq - *p)));
    if(it == m.end() || !(*it == String(eq + 1, String::length(eq + 1)))) e.envok = 0;
  }
  if(cnt != m.size()) e.envok = 0;
  e.r = (long long)n;
  ev_log(&e);
}

void drv_apply(const char* op)
{
  if(!strcmp(op, "start")) do_start();
  else if(!strcmp(op, "release")) do_release_op();
  else if(!strcmp(op, "join")) do_join();
  else if(!strcmp(op, "kill")) do_kill();
  else if(!strcmp(op, "wait")) do_wait();
  else if(!strcmp(op, "interrupt")) do_interrupt();
  else if(!strcmp(op, "setenv")) do_setenv();
  else if(!strcmp(op, "getenv")) do_getenv();
  else if(!strcmp(op, "getenvs")) do_getenvs();
  else { fprintf(stderr, "DRIVER-ERROR: unknown op %s\n", op); exit(3); }
}
