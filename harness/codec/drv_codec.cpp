// Driver for nstd's text codecs and numeric conversions (property C18): Unicode::toString/fromString/length/isValid,
// String::fromInt/fromUInt/fromInt64/fromUInt64/toInt/toUInt/toInt64/toUInt64, String::fromHex, String::fromBase64.
// Every byte range handed to a decoder is an exact-size heap block (ASan sees a one-byte over-read); results are
// logged in batches and validated by TLC against spec/text/{Utf8,Decimal,Base64}.tla (CodecTrace.tla).
//
//   cps <from> <n>            code points from..from+n-1: toString, then fromString/length/isValid on the result
//   bs x.. x.. ...            arbitrary byte strings: fromString/length/isValid
//   bsall 1 | bsall 2 <b0> | bsall 3 <b0> <b1>     all byte strings of that length with the given prefix
//   sweep <len>               ALL byte strings of length len (<= 3) through the three decoders; logs the isValid count
//   num <kind> <limb>...      kind i32|u32|i64|u64, value as little-endian 16-bit limbs of its bit pattern:
//                             fromX(value) and toX(that text) (member and static variant)
//   parse <kind> x<text>      toX(text)
//   hex x.. ...  | hexall     fromHex
//   b64 x.. ...  | b64all 1 | b64all 2 <b0> | b64all 3 <b0> <b1>    fromBase64(RFC 4648 encoding of the bytes)
//   b64sweep <lo> <hi>        all 3-byte strings with first byte lo..hi: fromBase64(enc(b)) == b (harness oracle)
//   b64raw x.. ...            fromBase64 on arbitrary text
//   b64raw4 x<alphabet> <i>   fromBase64 on all 4-character strings over the alphabet whose first symbol is number i
#include "drv.h"
#include <nstd/String.hpp>
#include <nstd/Unicode.hpp>

void drv_init(int, char**) {}
void drv_fini() {}
void drv_reset() {}

// exact-size heap copy; for n == 0 a pointer one past a 1-byte block (any read is a heap-buffer-overflow)
struct Exact
{
  unsigned char* base; unsigned char* p; int n;
  Exact(const unsigned char* src, int len) : n(len)
  {
    base = (unsigned char*)malloc(len ? len : 1);
    if(len) { memcpy(base, src, len); p = base; } else p = base + 1;
  }
  ~Exact() { free(base); }
};

static void put_bytes(const unsigned char* p, long n)
{
  fputc('[', g_out);
  for(long i = 0; i < n; ++i) fprintf(g_out, i ? ",%d" : "%d", (int)p[i]);
  fputc(']', g_out);
}

struct Batch     // results of the three Unicode decoders for a batch of byte strings
{
  char* s; char* dec; char* len; char* valid; size_t ns, nd, nl, nv; FILE *fs, *fd, *fl, *fv; int count; int strdiff;
  Batch() : count(0), strdiff(0)
  {
    fs = open_memstream(&s, &ns); fd = open_memstream(&dec, &nd); fl = open_memstream(&len, &nl); fv = open_memstream(&valid, &nv);
  }
  void add(const unsigned char* bytes, int n, bool logBytes)
  {
    Exact e(bytes, n);
    uint32 d = Unicode::fromString((const char*)e.p, (usize)n);
    long l = n ? (long)Unicode::length((char)e.p[0]) : -1;
    bool v = Unicode::isValid((const char*)e.p, (usize)n);
    // the String overloads must agree with the pointer versions
    {
      String str((const char*)e.p, (usize)n);
      if(Unicode::fromString(str) != d || Unicode::isValid(str) != v) ++strdiff;
    }
    const char* sep = count ? "," : "";
    if(logBytes)
    {
      fputs(sep, fs); fputc('[', fs);
      for(int i = 0; i < n; ++i) fprintf(fs, i ? ",%d" : "%d", (int)bytes[i]);
      fputc(']', fs);
    }
    fprintf(fd, "%s%d", sep, (int)(int32)d);
    fprintf(fl, "%s%ld", sep, l);
    fprintf(fv, "%s%d", sep, v ? 1 : 0);
    ++count;
  }
  void emit(const char* key)
  {
    fclose(fs); fclose(fd); fclose(fl); fclose(fv);
    fprintf(g_out, ",\"%s\":[%s],\"dec\":[%s],\"len\":[%s],\"valid\":[%s],\"strdiff\":%d", key, s, dec, len, valid, strdiff);
    free(s); free(dec); free(len); free(valid);
  }
};

static const char B64[] = "ABCDEFGHIJKLMNOPQRSTUVWXYZabcdefghijklmnopqrstuvwxyz0123456789+/";
// the harness' own RFC 4648 encoder; its output is logged and checked by TLC against Base64!Enc
static int b64enc(const unsigned char* p, int n, unsigned char* out)
{
  int o = 0;
  for(int i = 0; i < n; i += 3)
  {
    unsigned b1 = p[i], b2 = i + 1 < n ? p[i + 1] : 0, b3 = i + 2 < n ? p[i + 2] : 0;
    out[o++] = B64[b1 >> 2];
    out[o++] = B64[((b1 & 3) << 4) | (b2 >> 4)];
    out[o++] = i + 1 < n ? B64[((b2 & 15) << 2) | (b3 >> 6)] : '=';
    out[o++] = i + 2 < n ? B64[b3 & 63] : '=';
  }
  return o;
}

struct B64Batch
{
  char *o, *e, *d; size_t no, ne, nd; FILE *fo, *fe, *fd; int count;
  B64Batch() : count(0) { fo = open_memstream(&o, &no); fe = open_memstream(&e, &ne); fd = open_memstream(&d, &nd); }
  static void wr(FILE* f, const unsigned char* p, long n, int first)
  {
    if(!first) fputc(',', f);
    fputc('[', f);
    for(long i = 0; i < n; ++i) fprintf(f, i ? ",%d" : "%d", (int)p[i]);
    fputc(']', f);
  }
  void add(const unsigned char* orig, int n)
  {
    unsigned char* enc = (unsigned char*)malloc(4 * ((n + 2) / 3) + 4);
    int en = b64enc(orig, n, enc);
    String in((const char*)enc, (usize)en);
    String r = String::fromBase64(in);
    wr(fo, orig, n, !count); wr(fe, enc, en, !count); wr(fd, (const unsigned char*)(const char*)r, (long)r.length(), !count);
    free(enc);
    ++count;
  }
  void addRaw(const unsigned char* text, int n)
  {
    String in((const char*)text, (usize)n);
    String r = String::fromBase64(in);
    wr(fe, text, n, !count); wr(fd, (const unsigned char*)(const char*)r, (long)r.length(), !count);
    ++count;
  }
  void emit(bool withOrig)
  {
    fclose(fo); fclose(fe); fclose(fd);
    if(withOrig) fprintf(g_out, ",\"orig\":[%s]", o);
    fprintf(g_out, ",\"s\":[%s],\"r\":[%s]", e, d);
    free(o); free(e); free(d);
  }
};

static int kind_limbs(const char* k) { return k[1] == '6' ? 4 : 2; }
static void put_limbs(const char* key, unsigned long long v, int n)
{
  j_arr_begin(key);
  for(int i = 0; i < n; ++i) j_arr_int((long long)((v >> (16 * i)) & 0xFFFF));
  j_arr_end();
}
static unsigned long long parse_as(const char* kind, const String& s, bool stat)
{
  if(!strcmp(kind, "i32")) return (unsigned long long)(uint32)(stat ? String::toInt((const char*)s) : s.toInt());
  if(!strcmp(kind, "u32")) return (unsigned long long)(stat ? String::toUInt((const char*)s) : s.toUInt());
  if(!strcmp(kind, "i64")) return (unsigned long long)(stat ? String::toInt64((const char*)s) : s.toInt64());
  return (unsigned long long)(stat ? String::toUInt64((const char*)s) : s.toUInt64());
}

// the member conversions on a String that is a non-owning view (attach) of exactly the text, inside a buffer that goes
// on with more digits and has no terminator: the conversion must be that of the String's own bytes
static unsigned long long parse_view(const char* kind, const unsigned char* txt, long n)
{
  unsigned char* buf = (unsigned char*)malloc((size_t)n + 3);
  memcpy(buf, txt, (size_t)n);
  buf[n] = '7'; buf[n + 1] = '1'; buf[n + 2] = '9';
  unsigned long long r;
  {
    String v;
    v.attach((const char*)buf, (usize)n);
    r = parse_as(kind, v, false);
  }
  free(buf);
  return r;
}

void drv_apply(const char* op)
{
  if(!strcmp(op, "cps"))
  {
    long long from = tok_ll(); long n = tok_int();
    Batch b;
    for(long i = 0; i < n; ++i)
    {
      String s = Unicode::toString((uint32)(from + i));
      b.add((const unsigned char*)(const char*)s, (int)s.length(), true);
    }
    // the array overloads (toString(const uint32*, usize), append(const uint32*, usize, String&)) must produce the
    // concatenation of the single encodings and report success exactly when every single append does (counted in strdiff)
    if(n > 0)
    {
      uint32* arr = (uint32*)malloc(sizeof(uint32) * (size_t)n);
      String cat, pre("x"); bool all = true;
      for(long i = 0; i < n; ++i) { arr[i] = (uint32)(from + i); String one; all &= Unicode::append(arr[i], one); cat.append(one); }
      String bulk = Unicode::toString(arr, (usize)n);
      bool okb = Unicode::append(arr, (usize)n, pre);
      if(bulk != cat || pre != String("x") + cat || okb != all) ++b.strdiff;
      free(arr);
    }
    j_begin(op); j_int("from", from); j_int("n", n); b.emit("enc"); j_end();
  }
  else if(!strcmp(op, "bs"))
  {
    Batch b;
    while(tok_more()) { int n; unsigned char* p = tok_bytes(&n, 0); b.add(p, n, true); free(p); }
    j_begin(op); b.emit("s"); j_end();
  }
  else if(!strcmp(op, "bsall"))
  {
    int len = (int)tok_int();
    unsigned char s[3] = {0, 0, 0};
    for(int i = 0; i + 1 < len; ++i) s[i] = (unsigned char)tok_int();
    Batch b;
    for(int x = 0; x < 256; ++x) { s[len - 1] = (unsigned char)x; b.add(s, len, true); }
    j_begin(op); j_int("n", len); b.emit("s"); j_end();
  }
  else if(!strcmp(op, "sweep"))
  {
    int len = (int)tok_int();
    long total = 1; for(int i = 0; i < len; ++i) total *= 256;
    unsigned char tmp[4] = {0, 0, 0, 0};
    Exact e(tmp, len);                     // ONE exact-size block of len bytes, rewritten for every string
    long nvalid = 0, nstr = 0; unsigned long acc = 0;
    for(long v = 0; v < total; ++v)
    {
      for(int i = 0; i < len; ++i) e.p[i] = (unsigned char)(v >> (8 * (len - 1 - i)));
      acc += Unicode::fromString((const char*)e.p, (usize)len);
      if(len) acc += Unicode::length((char)e.p[0]);
      if(Unicode::isValid((const char*)e.p, (usize)len)) ++nvalid;
      ++nstr;
    }
    j_begin(op); j_int("n", len); j_int("count", nstr); j_int("nvalid", nvalid); j_int("acc16", (long long)(acc & 0xFFFF)); j_end();
  }
  else if(!strcmp(op, "num"))
  {
    const char* kind = tok_next();
    int nl = kind_limbs(kind);
    unsigned long long v = 0;
    for(int i = 0; i < nl; ++i) v |= (unsigned long long)(tok_int() & 0xFFFF) << (16 * i);
    String s;
    if(!strcmp(kind, "i32")) s = String::fromInt((int)(uint32)v);
    else if(!strcmp(kind, "u32")) s = String::fromUInt((uint)v);
    else if(!strcmp(kind, "i64")) s = String::fromInt64((int64)v);
    else s = String::fromUInt64((uint64)v);
    j_begin(op); j_str("kind", kind); put_limbs("v", v, nl);
    j_bytes("txt", (const unsigned char*)(const char*)s, (long)s.length());
    put_limbs("back", parse_as(kind, s, false), nl);
    put_limbs("sback", parse_as(kind, s, true), nl);
    put_limbs("vback", parse_view(kind, (const unsigned char*)(const char*)s, (long)s.length()), nl);
    j_end();
  }
  else if(!strcmp(op, "parse"))
  {
    const char* kind = tok_next();
    int n; unsigned char* p = tok_bytes(&n, 0);
    String s((const char*)p, (usize)n);
    int nl = kind_limbs(kind);
    j_begin(op); j_str("kind", kind); j_bytes("txt", p, n);
    put_limbs("back", parse_as(kind, s, false), nl);
    put_limbs("sback", parse_as(kind, s, true), nl);
    put_limbs("vback", parse_view(kind, p, n), nl);
    j_end();
    free(p);
  }
  else if(!strcmp(op, "hex") || !strcmp(op, "hexall"))
  {
    B64Batch b;                            // reused as a generic (input, output) batch
    if(!strcmp(op, "hexall"))
      for(int x = 0; x < 256; ++x)
      {
        unsigned char c = (unsigned char)x; Exact e(&c, 1);
        String r = String::fromHex(e.p, 1);
        B64Batch::wr(b.fe, e.p, 1, !b.count); B64Batch::wr(b.fd, (const unsigned char*)(const char*)r, (long)r.length(), !b.count); ++b.count;
      }
    else
      while(tok_more())
      {
        int n; unsigned char* p = tok_bytes(&n, 0); Exact e(p, n);
        String r = String::fromHex(e.p, (usize)n);
        B64Batch::wr(b.fe, p, n, !b.count); B64Batch::wr(b.fd, (const unsigned char*)(const char*)r, (long)r.length(), !b.count); ++b.count;
        free(p);
      }
    j_begin("hex"); b.emit(false); j_end();
  }
  else if(!strcmp(op, "b64"))
  {
    B64Batch b;
    while(tok_more()) { int n; unsigned char* p = tok_bytes(&n, 0); b.add(p, n); free(p); }
    j_begin(op); b.emit(true); j_end();
  }
  else if(!strcmp(op, "b64all"))
  {
    int len = (int)tok_int();
    unsigned char s[3] = {0, 0, 0};
    for(int i = 0; i + 1 < len; ++i) s[i] = (unsigned char)tok_int();
    B64Batch b;
    for(int x = 0; x < 256; ++x) { s[len - 1] = (unsigned char)x; b.add(s, len); }
    j_begin("b64"); b.emit(true); j_end();
  }
  else if(!strcmp(op, "b64sweep"))
  {
    int lo = (int)tok_int(), hi = (int)tok_int();
    long n = 0, bad = 0;
    unsigned char s[3], enc[8];
    for(int a = lo; a <= hi; ++a)
      for(int b = 0; b < 256; ++b)
        for(int c = 0; c < 256; ++c)
        {
          s[0] = (unsigned char)a; s[1] = (unsigned char)b; s[2] = (unsigned char)c;
          int en = b64enc(s, 3, enc);
          String r = String::fromBase64(String((const char*)enc, (usize)en));
          if(r.length() != 3 || memcmp((const char*)r, s, 3) != 0) ++bad;
          ++n;
        }
    j_begin(op); j_int("lo", lo); j_int("hi", hi); j_int("count", n); j_int("bad", bad); j_end();
  }
  else if(!strcmp(op, "b64raw"))
  {
    B64Batch b;
    while(tok_more()) { int n; unsigned char* p = tok_bytes(&n, 0); b.addRaw(p, n); free(p); }
    j_begin("b64raw"); b.emit(false); j_end();
  }
  else if(!strcmp(op, "b64raw4"))
  {
    int na; unsigned char* alpha = tok_bytes(&na, 0);
    int first = (int)tok_int();
    B64Batch b;
    unsigned char s[4];
    s[0] = alpha[first];
    for(int i = 0; i < na; ++i) for(int j = 0; j < na; ++j) for(int k = 0; k < na; ++k)
    {
      s[1] = alpha[i]; s[2] = alpha[j]; s[3] = alpha[k];
      b.addRaw(s, 4);
    }
    free(alpha);
    j_begin("b64raw"); b.emit(false); j_end();
  }
  else { fprintf(stderr, "DRIVER-ERROR: unknown op %s\n", op); exit(3); }
}
