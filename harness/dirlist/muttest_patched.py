#!/usr/bin/env python3
"""tools/muttest.py for X01 with another base tree:  muttest_patched.py <base tree> [mutant numbers]
muttest.py copies /repo, where the two X01 findings are unfixed (every mutant would trivially be "caught"); this
runs the same mutants (tools/mutants/X01.txt) on copies of a tree that has build/fixes/X01-*.patch applied."""
import os, re, shutil, subprocess, sys, tempfile
BASE = sys.argv[1]
specs = [l.strip() for l in open("/verif/tools/mutants/X01.txt") if l.strip() and not l.startswith("#")]
only = [int(x) for x in sys.argv[2:]]
build = tempfile.mkdtemp(prefix="verif-mutbuild-")
res = []
for n, sp in enumerate(specs):
    if only and n not in only: continue
    parts = [x.strip() for x in sp.split("|||")]
    rel, rx, rep = parts[0], parts[1], parts[2]
    tmp = tempfile.mkdtemp(prefix="verif-mut-")
    repo = os.path.join(tmp, "repo"); os.makedirs(repo)
    for d in ("include", "src"): shutil.copytree(os.path.join(BASE, d), os.path.join(repo, d))
    p = os.path.join(repo, rel); s = open(p).read()
    s2, k = re.subn(rx, rep.replace("\\n", "\n"), s, count=1, flags=re.S)
    if k == 0: r = "NOMATCH"
    else:
        open(p, "w").write(s2)
        env = dict(os.environ, VERIF_REPO=repo, VERIF_BUILD=build, VERIF_EVIDENCE=os.path.join(tmp, "ev"))
        pr = subprocess.run(["/verif/check", "X01", "quick"], env=env, stdout=subprocess.PIPE, stderr=subprocess.STDOUT)
        out = pr.stdout.decode("utf-8", "replace")
        keys = sorted(set(re.findall(r"violation key=(\S+)", out)))
        r = ("CAUGHT " + ",".join(keys)) if pr.returncode == 1 and "VIOLATION property=X01" in out else "MISSED" if pr.returncode == 0 else "BROKEN rc=%d: %s" % (pr.returncode, out[-800:])
    shutil.rmtree(tmp, ignore_errors=True)
    print("%d %-8s %s" % (n, r, parts[3] if len(parts) > 3 else sp[:100]), flush=True)
    res.append(r)
shutil.rmtree(build, ignore_errors=True)
print("mutants: %d caught: %d missed: %d other: %d" % (len(res), sum(r.startswith("CAUGHT") for r in res), sum(r == "MISSED" for r in res), sum(not r.startswith("CAUGHT") and r != "MISSED" for r in res)))
