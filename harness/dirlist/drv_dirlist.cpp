// Driver for extra X01: Directory enumeration with patterns, Directory::purge, File::time / isExecutable /
// getAbsolutePath, in a scratch tree (set-up derived from harness/fs/drv_fs.cpp, property C19).
//
// usage: drv_dirlist <ops> <trace> <scratch base dir>
// Paths are "-" (none / the working directory) or x<hex of a relative path such as a/ab> inside the scratch tree;
// patterns and raw path strings are x<hex>.
//   set-up ops (plain POSIX, not under test):  fsmode u (1: readdir reports DT_UNKNOWN for every entry) | mkdir P | mkfile P xbits mtime_ms | mklink P k (0 linkF, 1 linkD, 2 dangling) | rm P
//   ops under test:  list D pat dirsOnly | dopen D pat dirsOnly | dread | dclose | purge P recursive | time P | isexe P |
//                    abspath C raw        (getAbsolutePath(raw) with working directory C)
//                    wm7 pat str          (the Win32 branch's wildcard matcher, extracted from src/Directory.cpp; no file system)
// The driver creates <base>/x01.<pid>/{in,out}, chdir()s into .../in and never names anything outside
// <base>/x01.<pid>, which it removes at exit.  .../out is the "outside" sentinel tree that symbolic links point to
// (out/s: file, mode 0755, fixed times; out/sub/: directory with one file t).  After every op it logs a snapshot
// (path components, type, execute bits, times) of the scratch tree and whether the outside tree is unchanged.
#include "drv.h"
#include <errno.h>
#include <fcntl.h>
#include <dirent.h>
#include <limits.h>
#include <sys/stat.h>
#include <sys/types.h>
#include <dlfcn.h>
#include <nstd/File.hpp>
#include <nstd/Directory.hpp>

// fsmode 1 = a file system that does not report entry types: every readdir() of the process (the library's calls
// included: this definition in the executable takes precedence) returns d_type = DT_UNKNOWN.  The driver's own code
// never looks at d_type.
static int g_unk = 0;
extern "C" struct dirent* readdir(DIR* d)
{
  typedef struct dirent* (*fn_t)(DIR*);
  static fn_t real = 0;
  if(!real) real = (fn_t)dlsym(RTLD_NEXT, "readdir");
  struct dirent* e = real(d);
  if(e && g_unk) e->d_type = DT_UNKNOWN;
  return e;
}

extern "C" int x01_wm7(const char* pat, const char* str);    // generated from src/Directory.cpp by tools/props/x01.py

static char g_base[512] = "";     // <base>/x01.<pid>
static char g_din[600] = "";
static char g_dout[600] = "";
static char g_lnF[700] = "";      // target of linkF: <out>/s
static char g_lnD[700] = "";      // target of linkD: <out>/sub
static char g_lnX[700] = "";      // target of linkX: <out>/nothing (never exists)
static char g_root[PATH_MAX] = "";// canonical name of .../in
static Directory* g_dir = 0;      // the one persistent Directory object of the model
static int g_hopen = 0;           // dopen succeeded and dclose was not called since
static int g_fd_base = -1;
static int g_fs_used = 0;
static char* g_out_ref = 0;       // rendering of the outside tree right after set-up

// ------------------------------------------------------------------------------------------- own (POSIX) helpers
static void die(const char* what) { fprintf(stderr, "DRIVER-ERROR: %s: %s\n", what, strerror(errno)); exit(3); }

// remove everything below directory fd (never follows symbolic links, never leaves the directory)
static void rm_below(int dfd)
{
  DIR* d = fdopendir(dup(dfd));
  if(!d) die("fdopendir");
  rewinddir(d);
  struct dirent* e;
  while((e = readdir(d)))
  {
    if(!strcmp(e->d_name, ".") || !strcmp(e->d_name, "..")) continue;
    struct stat st;
    if(fstatat(dfd, e->d_name, &st, AT_SYMLINK_NOFOLLOW) != 0) continue;
    if(S_ISDIR(st.st_mode))
    {
      int sub = openat(dfd, e->d_name, O_RDONLY | O_DIRECTORY | O_NOFOLLOW);
      if(sub < 0) die("openat");
      rm_below(sub);
      close(sub);
      if(unlinkat(dfd, e->d_name, AT_REMOVEDIR) != 0) die("unlinkat dir");
    }
    else if(unlinkat(dfd, e->d_name, 0) != 0) die("unlinkat");
  }
  closedir(d);
}
static long long ms_of(const struct timespec& t) { return (long long)t.tv_sec * 1000LL + (long long)t.tv_nsec / 1000000LL; }
static long long clampv(long long v) { return v >= 0 && v < 2000000000LL ? v : -2; }
static long long clampd(long long v) { return v > 1000000000LL ? 1000000000LL : v < -1000000000LL ? -1000000000LL : v; }
static int set_file(const char* path, int xbits, long long mt_ms, int create)
{
  int fd = open(path, (create ? O_CREAT : 0) | O_WRONLY | O_NOFOLLOW | O_CLOEXEC, 0600);
  if(fd < 0) return 0;
  if(fchmod(fd, 0600 | (xbits & 4 ? 0100 : 0) | (xbits & 2 ? 0010 : 0) | (xbits & 1 ? 0001 : 0)) != 0) die("fchmod");
  struct timespec ts[2];
  long long at_ms = mt_ms + 7;
  ts[0].tv_sec = at_ms / 1000; ts[0].tv_nsec = (at_ms % 1000) * 1000000L + 1234;      // access
  ts[1].tv_sec = mt_ms / 1000; ts[1].tv_nsec = (mt_ms % 1000) * 1000000L + 999999;    // modification (sub-ms part must be cut)
  if(futimens(fd, ts) != 0) die("futimens");
  close(fd);
  return 1;
}

// snapshot of a tree as JSON array of {"p":[[name bytes],...],"t":"dir|file|linkF|linkD|linkX|other","x":bits,"mt":ms,"at":ms}
static int snap_first;
static void snap(const char* dirpath, const char** comps, int ncomp)
{
  DIR* d = opendir(dirpath);
  if(!d) return;
  static char names[8][48][40];
  if(ncomp >= 7) { closedir(d); return; }
  char (*nm)[40] = names[ncomp]; int nn = 0;
  struct dirent* e;
  while((e = readdir(d)))
  {
    if(!strcmp(e->d_name, ".") || !strcmp(e->d_name, "..")) continue;
    if(nn < 48) { strncpy(nm[nn], e->d_name, 39); nm[nn][39] = 0; ++nn; }
  }
  closedir(d);
  for(int i = 0; i < nn; ++i) for(int j = i + 1; j < nn; ++j) if(strcmp(nm[i], nm[j]) > 0)
  { char t[40]; strcpy(t, nm[i]); strcpy(nm[i], nm[j]); strcpy(nm[j], t); }
  for(int i = 0; i < nn; ++i)
  {
    char path[1200];
    snprintf(path, sizeof(path), "%s/%s", dirpath, nm[i]);
    struct stat st;
    if(lstat(path, &st) != 0) continue;
    fputs(snap_first ? "{\"p\":[" : ",{\"p\":[", g_out); snap_first = 0;
    comps[ncomp] = nm[i];
    for(int k = 0; k <= ncomp; ++k)
    {
      fputs(k ? ",[" : "[", g_out);
      for(const unsigned char* c = (const unsigned char*)comps[k]; *c; ++c) fprintf(g_out, c == (const unsigned char*)comps[k] ? "%d" : ",%d", (int)*c);
      fputc(']', g_out);
    }
    fputs("],\"t\":", g_out);
    if(S_ISDIR(st.st_mode))
    {
      fputs("\"dir\",\"x\":0,\"mt\":0,\"at\":0}", g_out);
      snap(path, comps, ncomp + 1);
    }
    else if(S_ISLNK(st.st_mode))
    {
      char tgt[800]; ssize_t n = readlink(path, tgt, sizeof(tgt) - 1); tgt[n < 0 ? 0 : n] = 0;
      fprintf(g_out, "\"%s\",\"x\":0,\"mt\":0,\"at\":0}", !strcmp(tgt, g_lnF) ? "linkF" : !strcmp(tgt, g_lnD) ? "linkD" : !strcmp(tgt, g_lnX) ? "linkX" : "other");
    }
    else if(S_ISREG(st.st_mode))
      fprintf(g_out, "\"file\",\"x\":%d,\"mt\":%lld,\"at\":%lld}", (st.st_mode & 0100 ? 4 : 0) | (st.st_mode & 0010 ? 2 : 0) | (st.st_mode & 0001 ? 1 : 0),
              clampv(ms_of(st.st_mtim)), clampv(ms_of(st.st_atim)));
    else fputs("\"other\",\"x\":0,\"mt\":0,\"at\":0}", g_out);
  }
}
static char* render(const char* dir)
{
  const char* comps[10]; char* buf = 0; size_t len = 0;
  FILE* keep = g_out;
  g_out = open_memstream(&buf, &len);
  snap_first = 1; snap(dir, comps, 0);
  fclose(g_out);
  g_out = keep;
  return buf;
}

static void fs_setup()
{
  if(g_fd_base < 0)
  {
    if(!g_base[0]) { fprintf(stderr, "DRIVER-ERROR: file system op without scratch base\n"); exit(3); }
    if(mkdir(g_base, 0755) != 0) die(g_base);
    g_fd_base = open(g_base, O_RDONLY | O_DIRECTORY);
    if(g_fd_base < 0) die("open base");
  }
  if(chdir(g_base) != 0) die("chdir base");
  rm_below(g_fd_base);
  if(mkdir(g_din, 0755) != 0 || mkdir(g_dout, 0755) != 0) die("mkdir in/out");
  // the outside sentinel: out/s (0755, fixed times), out/sub/, out/sub/t
  char p[800];
  if(!set_file(g_lnF, 7, 77123, 1)) die("out/s");
  if(chmod(g_lnF, 0755) != 0) die("chmod");
  if(mkdir(g_lnD, 0755) != 0) die("mkdir sub");
  snprintf(p, sizeof(p), "%s/t", g_lnD);
  if(!set_file(p, 0, 5000, 1)) die("out/sub/t");
  if(chdir(g_din) != 0) die("chdir");
  if(!realpath(g_din, g_root)) die("realpath");
  free(g_out_ref);
  g_out_ref = render(g_dout);
}
static void fs_teardown()
{
  if(g_fd_base >= 0)
  {
    if(chdir("/") != 0) {}
    rm_below(g_fd_base);
    close(g_fd_base);
    g_fd_base = -1;
    rmdir(g_base);
  }
}

// ------------------------------------------------------------------------------------------- argument handling
struct Arg { char s[128]; int n; int none; };
static void tok_arg(Arg* a)        // "-" or x<hex>
{
  const char* t = tok_next();
  if(!t) { fprintf(stderr, "DRIVER-ERROR: missing token at line %ld\n", g_lineno); exit(3); }
  a->n = 0; a->none = 0; a->s[0] = 0;
  if(!strcmp(t, "-")) { a->none = 1; return; }
  if(t[0] != 'x') { fprintf(stderr, "DRIVER-ERROR: bad token %s at line %ld\n", t, g_lineno); exit(3); }
  int len = (int)strlen(t + 1) / 2;
  if(len > 120) len = 120;
  for(int i = 0; i < len; ++i) a->s[i] = (char)(hexv(t[1 + 2 * i]) * 16 + hexv(t[2 + 2 * i]));
  a->s[len] = 0; a->n = len;
}
static void j_pathcomps(const char* key, const Arg* a)
{
  fprintf(g_out, ",\"%s\":[", key);
  if(!a->none)
  {
    const char* s = a->s; int first = 1;
    for(;;)
    {
      const char* e = strchr(s, '/'); if(!e) e = s + strlen(s);
      fputs(first ? "[" : ",[", g_out); first = 0;
      for(const char* c = s; c < e; ++c) fprintf(g_out, c == s ? "%d" : ",%d", (int)(unsigned char)*c);
      fputc(']', g_out);
      if(!*e) break;
      s = e + 1;
    }
  }
  fputc(']', g_out);
}
// a relative path the driver may hand to the library: non-empty components, none of them "." or "..", no NUL,
// and no symbolic link to a directory strictly above its last component
static int safe_path(const Arg* a)
{
  if(a->none) return 1;
  if(a->n == 0 || (int)strlen(a->s) != a->n || a->s[0] == '/' || a->s[a->n - 1] == '/') return 0;
  char buf[128]; strcpy(buf, a->s);
  for(char* s = buf;;)
  {
    char* e = strchr(s, '/');
    if(e) *e = 0;
    if(!*s || !strcmp(s, ".") || !strcmp(s, "..") || strlen(s) > 30) return 0;
    if(!e) break;
    struct stat l, t;                                   // buf is now the prefix ending at this component
    if(lstat(buf, &l) == 0 && S_ISLNK(l.st_mode) && stat(buf, &t) == 0 && S_ISDIR(t.st_mode)) return 0;
    if(lstat(buf, &l) == 0 && S_ISLNK(l.st_mode)) return 0;      // any link above: not meaningful
    *e = '/';
    s = e + 1;
  }
  return 1;
}

struct Ent { char n[64]; int len; int d; };
static void j_ents(const Ent* es, int n)
{
  fputs(",\"ents\":[", g_out);
  for(int i = 0; i < n; ++i)
  {
    fputs(i ? ",{\"n\":[" : "{\"n\":[", g_out);
    for(int k = 0; k < es[i].len; ++k) fprintf(g_out, k ? ",%d" : "%d", (int)(unsigned char)es[i].n[k]);
    fprintf(g_out, "],\"d\":%d}", es[i].d);
  }
  fputc(']', g_out);
}

struct Obs { long long r, wt, at, dwt, dat, dct, lwt, lat, lct; Ent ents[64]; int nents; String res; int root; };
static void x_log(const char* op, const Arg* p, const Arg* q, long k, long long m, const Obs* o)
{
  j_begin(op);
  j_pathcomps("p", p);
  j_bytes("q", (const unsigned char*)q->s, q->n);
  j_int("k", k);
  j_int("m", m);
  j_int("r", o->r);
  j_int("wt", o->wt); j_int("at", o->at); j_int("dwt", o->dwt); j_int("dat", o->dat); j_int("dct", o->dct);
  j_int("lwt", o->lwt); j_int("lat", o->lat); j_int("lct", o->lct);
  j_ents(o->ents, o->nents);
  j_bytes("res", (const unsigned char*)(const char*)o->res, (long)o->res.length());
  j_bytes("root", (const unsigned char*)g_root, o->root ? (long)strlen(g_root) : 0);
  fputs(",\"tree\":[", g_out);
  const char* comps[10];
  snap_first = 1; snap(g_din, comps, 0);
  fputs("]", g_out);
  char* now = render(g_dout);
  j_bool("outsame", g_out_ref && !strcmp(now, g_out_ref));
  free(now);
  j_int("h", g_hopen);
  j_int("u", g_unk);
  j_end();
}

static int read_all(Directory& dir, Ent* es, int cap)
{
  int n = 0;
  String name; bool isDir = false;
  for(int guard = 0; guard < 1000 && dir.read(name, isDir); ++guard)
    if(n < cap)
    {
      es[n].len = (int)(name.length() < 60 ? name.length() : 60);
      memcpy(es[n].n, (const char*)name, es[n].len);
      es[n].d = isDir ? 1 : 0;
      ++n;
    }
  return n;
}

// ------------------------------------------------------------------------------------------- driver interface
void drv_init(int argc, char** argv)
{
  if(argc > 3)
  {
    snprintf(g_base, sizeof(g_base), "%s/x01.%d", argv[3], (int)getpid());
    snprintf(g_din, sizeof(g_din), "%s/in", g_base);
    snprintf(g_dout, sizeof(g_dout), "%s/out", g_base);
    snprintf(g_lnF, sizeof(g_lnF), "%s/s", g_dout);
    snprintf(g_lnD, sizeof(g_lnD), "%s/sub", g_dout);
    snprintf(g_lnX, sizeof(g_lnX), "%s/nothing", g_dout);
  }
  atexit(fs_teardown);
}
void drv_fini() { delete g_dir; g_dir = 0; fs_teardown(); free(g_out_ref); g_out_ref = 0; }
void drv_reset()
{
  delete g_dir; g_dir = 0; g_hopen = 0;
  g_fs_used = 0; g_unk = 0;
}

void drv_apply(const char* op)
{
  if(!strcmp(op, "wm7"))
  {
    Arg pat, str; tok_arg(&pat); tok_arg(&str);
    // exact-size heap copies so that ASan sees over-reads
    char* p = (char*)malloc(pat.n + 1); memcpy(p, pat.s, pat.n + 1);
    char* s = (char*)malloc(str.n + 1); memcpy(s, str.s, str.n + 1);
    int r = x01_wm7(p, s);
    free(p); free(s);
    j_begin("wm7");
    j_bytes("pat", (const unsigned char*)pat.s, pat.n); j_bytes("str", (const unsigned char*)str.s, str.n); j_int("r", r);
    j_end();
    return;
  }
  if(!g_fs_used) { fs_setup(); g_fs_used = 1; g_dir = new Directory; g_hopen = 0; }
  Arg p, q; p.none = 1; p.n = 0; p.s[0] = 0; q.none = 0; q.n = 0; q.s[0] = 0;
  long k = 0; long long m = 0;
  static Obs o;
  o.r = 0; o.wt = o.at = -1; o.dwt = o.dat = o.dct = 0; o.lwt = o.lat = o.lct = 0; o.nents = 0; o.res = String(); o.root = 0;
  int kind;     // 1 set-up, 2 mutating under test, 3 query
  if(!strcmp(op, "fsmode")) { k = tok_int(); kind = 0; }
  else if(!strcmp(op, "mkdir") || !strcmp(op, "rm")) { tok_arg(&p); kind = 1; }
  else if(!strcmp(op, "mkfile")) { tok_arg(&p); k = tok_int(); m = tok_ll(); kind = 1; }
  else if(!strcmp(op, "mklink")) { tok_arg(&p); k = tok_int(); kind = 1; }
  else if(!strcmp(op, "purge")) { tok_arg(&p); k = tok_int(); kind = 2; }
  else if(!strcmp(op, "list") || !strcmp(op, "dopen")) { tok_arg(&p); tok_arg(&q); k = tok_int(); kind = 3; }
  else if(!strcmp(op, "dread") || !strcmp(op, "dclose")) kind = 3;
  else if(!strcmp(op, "time") || !strcmp(op, "isexe")) { tok_arg(&p); kind = 3; }
  else if(!strcmp(op, "abspath")) { tok_arg(&p); tok_arg(&q); kind = 3; }
  else { fprintf(stderr, "DRIVER-ERROR: unknown op %s\n", op); exit(3); }

  // safety guards (the same exclusions as DirList!Enabled): never act outside the scratch tree
  int nop = 0;
  if(!safe_path(&p)) nop = 1;
  if(kind != 3 && kind != 0 && p.none) nop = 1;
  if(kind != 3 && g_hopen) nop = 1;
  if(kind == 0 && k != 0 && k != 1) nop = 1;
  if((!strcmp(op, "time") || !strcmp(op, "isexe")) && p.none) nop = 1;
  if((int)strlen(q.s) != q.n) nop = 1;                                  // NUL inside a pattern
  if(!strcmp(op, "mkfile") && (m < 0 || m > 1000000000LL || k < 0 || k > 7)) nop = 1;
  if(!strcmp(op, "abspath") && !nop && !p.none)
  {
    struct stat l;
    if(lstat(p.s, &l) != 0 || !S_ISDIR(l.st_mode)) nop = 1;
  }
  if(nop) { x_log("nop", &p, &q, k, m, &o); return; }

  String sp(p.s, (usize)p.n), sq(q.s, (usize)q.n);
  if(!strcmp(op, "fsmode")) { g_unk = (int)k; o.r = 1; }
  else if(!strcmp(op, "mkdir")) o.r = mkdir(p.s, 0755) == 0;
  else if(!strcmp(op, "mkfile"))
  {
    struct stat l;
    int there = lstat(p.s, &l) == 0;
    o.r = (there && !S_ISREG(l.st_mode)) ? 0 : set_file(p.s, (int)k, m, 1);
  }
  else if(!strcmp(op, "mklink")) o.r = symlink(k == 0 ? g_lnF : k == 1 ? g_lnD : g_lnX, p.s) == 0;
  else if(!strcmp(op, "rm"))
  {
    struct stat l;
    if(lstat(p.s, &l) != 0) o.r = 0;
    else o.r = (S_ISDIR(l.st_mode) ? rmdir(p.s) : unlink(p.s)) == 0;
  }
  else if(!strcmp(op, "purge")) o.r = Directory::purge(sp, k == 1) ? 1 : 0;
  else if(!strcmp(op, "list"))
  {
    Directory dir;
    o.r = dir.open(sp, sq, k == 1) ? 1 : 0;
    if(o.r) { o.nents = read_all(dir, o.ents, 64); dir.close(); }
  }
  else if(!strcmp(op, "dopen")) { o.r = g_dir->open(sp, sq, k == 1) ? 1 : 0; if(o.r) g_hopen = 1; }
  else if(!strcmp(op, "dread"))
  {
    String name; bool isDir = false;
    o.r = g_dir->read(name, isDir) ? 1 : 0;
    if(o.r)
    {
      o.ents[0].len = (int)(name.length() < 60 ? name.length() : 60);
      memcpy(o.ents[0].n, (const char*)name, o.ents[0].len);
      o.ents[0].d = isDir ? 1 : 0;
      o.nents = 1;
    }
  }
  else if(!strcmp(op, "dclose")) { g_dir->close(); g_hopen = 0; o.r = 1; }
  else if(!strcmp(op, "time"))
  {
    File::Time t; t.writeTime = t.accessTime = t.creationTime = -12345;
    o.r = File::time(sp, t) ? 1 : 0;
    if(o.r)
    {
      struct stat st;
      o.wt = clampv(t.writeTime); o.at = clampv(t.accessTime);
      if(stat(p.s, &st) != 0) o.dwt = o.dat = o.dct = 999999999;       // success reported for something stat() does not find
      else { o.dwt = clampd(t.writeTime - ms_of(st.st_mtim)); o.dat = clampd(t.accessTime - ms_of(st.st_atim)); o.dct = clampd(t.creationTime - ms_of(st.st_ctim)); }
      if(lstat(p.s, &st) != 0) o.lwt = o.lat = o.lct = 999999999;
      else { o.lwt = clampd(t.writeTime - ms_of(st.st_mtim)); o.lat = clampd(t.accessTime - ms_of(st.st_atim)); o.lct = clampd(t.creationTime - ms_of(st.st_ctim)); }
    }
  }
  else if(!strcmp(op, "isexe")) o.r = File::isExecutable(sp) ? 1 : 0;
  else if(!strcmp(op, "abspath"))
  {
    if(!p.none && chdir(p.s) != 0) die("chdir");
    o.res = File::getAbsolutePath(sq);
    if(chdir(g_din) != 0) die("chdir back");
    o.r = 1; o.root = 1;
  }
  x_log(op, &p, &q, k, m, &o);
}
