// Driver for nstd::String (property C06): executes op files on NV real String objects (on the heap), NX external
// memory blocks (literals / attachable memory: exact-size heap blocks so that ASan sees every over-read) and one
// List<String>, and logs after every operation the answer and the projected state of EVERYTHING: the bytes and
// length() of every variable (read through the private data pointer, i.e. without triggering the conversions
// that change the representation), every external block, the token list.
//
// Every op line has the same shape:   <op> i k m x<hex d> n n2     (see spec/values/ByteStrings.tla, Step)
// The driver refuses (event "nop") an operation that is outside the property's domain (ByteStrings!InDomain):
// C-string based operations on operands containing NUL, replace with an empty needle, printf with its own text.
// Layer-2 observation "l2" (representation kind / refcount / capacity / terminator) is logged for drift only.
#include "drv.h"
#define private public
#define protected public
#include <nstd/String.hpp>
#include <nstd/List.hpp>
#undef private
#undef protected

enum { NV = 3, NX = 2, XMAX = 16, LMAX = 48, LSTMAX = 12 };   // LMAX: operations that would build longer strings are refused
static String* S[NV + 1];
static List<String>* L = 0;
static unsigned char* X[NX + 1];      // external block j: xn[j] bytes = text followed by one pad byte
static int xn[NX + 1];
static int started = 0;               // a String operation was executed in this execution (ext no longer allowed)

// ---- literals: String(const char(&)[N]) needs a static N
template<usize N> static String* mk_lit(const unsigned char* p) { return new String(*(const char(*)[N])p); }
template<usize N> static void as_lit(String& s, const unsigned char* p) { s = *(const char(*)[N])p; }
#define LITCASES(F, ...) switch(n) { \
  case 1: F<1>(__VA_ARGS__); break; case 2: F<2>(__VA_ARGS__); break; case 3: F<3>(__VA_ARGS__); break; case 4: F<4>(__VA_ARGS__); break; \
  case 5: F<5>(__VA_ARGS__); break; case 6: F<6>(__VA_ARGS__); break; case 7: F<7>(__VA_ARGS__); break; case 8: F<8>(__VA_ARGS__); break; \
  case 9: F<9>(__VA_ARGS__); break; case 10: F<10>(__VA_ARGS__); break; case 11: F<11>(__VA_ARGS__); break; case 12: F<12>(__VA_ARGS__); break; \
  case 13: F<13>(__VA_ARGS__); break; case 14: F<14>(__VA_ARGS__); break; case 15: F<15>(__VA_ARGS__); break; case 16: F<16>(__VA_ARGS__); break; \
  default: fprintf(stderr, "DRIVER-ERROR: literal size %d\n", n); exit(3); }
static String* new_lit(const unsigned char* p, int n) { String* r = 0; LITCASES(r = mk_lit, p) return r; }
static void assign_lit(String& s, const unsigned char* p, int n) { LITCASES(as_lit, s, p) }

void drv_init(int, char**) {}
void drv_fini()
{
  delete L; L = 0;
  for(int i = 1; i <= NV; ++i) { delete S[i]; S[i] = 0; }
  for(int j = 1; j <= NX; ++j) { free(X[j]); X[j] = 0; }
}
void drv_reset()
{
  drv_fini();
  for(int i = 1; i <= NV; ++i) S[i] = new String;
  for(int j = 1; j <= NX; ++j) { X[j] = (unsigned char*)malloc(1); X[j][0] = 0; xn[j] = 1; }
  L = new List<String>;
  started = 0;
}

// bytes of a String without conversions
static const unsigned char* raw(const String& s) { return (const unsigned char*)s.data->str; }
static int nulfree(const unsigned char* p, long n) { for(long x = 0; x < n; ++x) if(!p[x]) return 0; return 1; }
static int nulfreeS(const String& s) { return nulfree(raw(s), (long)s.data->len); }

static void put_bytes(const unsigned char* p, long n)
{
  fputc('[', g_out);
  for(long x = 0; x < n; ++x) fprintf(g_out, x ? ",%d" : "%d", (int)p[x]);
  fputc(']', g_out);
}

static void observe(const char* op, int i, int k, int m, const unsigned char* d, int dn, long n, long n2,
                    long r, const unsigned char* rb, long rbn, long rn)
{
  j_begin(op);
  j_int("i", i); j_int("k", k); j_int("m", m); j_bytes("d", d, dn); j_int("n", n); j_int("n2", n2);
  j_int("r", r); j_bytes("rb", rb, rbn); j_int("rn", rn);
  fputs(",\"val\":[", g_out);
  for(int v = 1; v <= NV; ++v) { if(v > 1) fputc(',', g_out); put_bytes(raw(*S[v]), (long)S[v]->data->len); }
  fputs("],\"len\":[", g_out);
  for(int v = 1; v <= NV; ++v) fprintf(g_out, v > 1 ? ",%ld" : "%ld", (long)S[v]->length());
  fputs("],\"ext\":[", g_out);
  for(int j = 1; j <= NX; ++j) { if(j > 1) fputc(',', g_out); put_bytes(X[j], xn[j]); }
  fputs("],\"lst\":[", g_out);
  {
    int first = 1;
    for(List<String>::Iterator it = L->begin(), end = L->end(); it != end; ++it)
    {
      if(!first) fputc(',', g_out);
      first = 0;
      put_bytes(raw(*it), (long)it->data->len);
    }
  }
  // Layer-2 observation (never decides a verdict): kind 0 empty / 1 inline descriptor (literal or attached) / 2 owned,
  // reference count, capacity, byte at str[len]
  fputs("],\"l2\":[", g_out);
  for(int v = 1; v <= NV; ++v)
  {
    const String& s = *S[v];
    int kind = s.data == &String::emptyData ? 0 : s.data == &s._data ? 1 : 2;
    fprintf(g_out, "%s[%d,%ld,%ld,%d]", v > 1 ? "," : "", kind, (long)s.data->ref, kind == 2 ? (long)s.data->capacity : 0L,
            (int)(unsigned char)s.data->str[s.data->len]);
  }
  fputs("]", g_out);
  j_end();
}

static long idx_of(const String& s, const char* p) { return p ? (long)(p - s.data->str) : -1L; }

void drv_apply(const char* op)
{
  int i = (int)tok_int(), k = (int)tok_int(), m = (int)tok_int();
  int dn = 0;
  unsigned char* d = tok_bytes(&dn, 1);          // exact-size heap copy + terminating NUL (usable as C string)
  long n = tok_int(), n2 = tok_int();
  long r = 0, rn = 0;
  unsigned char* rb = 0; long rbn = 0;
  int ok = 1;                                    // in the domain?
#define IS(x) (!strcmp(op, x))
#define VAR(x) ((x) >= 1 && (x) <= NV)
#define EXT(x) ((x) >= 1 && (x) <= NX)
#define LEN(x) ((long)S[x]->data->len)
  if(IS("ext"))
  {
    if(started || !EXT(i) || dn + 1 > XMAX) ok = 0;
    else
    {
      free(X[i]);
      X[i] = (unsigned char*)malloc(dn + 1);
      memcpy(X[i], d, dn);
      X[i][dn] = (unsigned char)n;
      xn[i] = dn + 1;
    }
    if(ok) { observe(op, i, k, m, d, dn, n, n2, 0, (const unsigned char*)"", 0, 0); free(d); return; }
  }
  if(!VAR(i)) ok = 0;
  if(ok)
  {
    started = 1;
    String& s = *S[i];
    if(IS("lit")) { if(EXT(k) && X[k][xn[k] - 1] == 0) { String* c = new_lit(X[k], xn[k]); delete S[i]; S[i] = c; } else ok = 0; }
    else if(IS("assignlit")) { if(EXT(k) && X[k][xn[k] - 1] == 0) assign_lit(s, X[k], xn[k]); else ok = 0; }
    else if(IS("attach")) { if(EXT(k) && n >= 0 && n <= xn[k] - 1) s.attach((const char*)X[k], (usize)n); else ok = 0; }
    else if(IS("ctorbuf")) { String* c = new String((const char*)d, (usize)dn); delete S[i]; S[i] = c; }
    else if(IS("ctorfill")) { if(n >= 0 && n <= LMAX && n2 >= 0 && n2 <= 255) { String* c = new String((usize)n, (char)n2); delete S[i]; S[i] = c; } else ok = 0; }
    else if(IS("ctorcap")) { if(n >= 0 && n <= 4 * LMAX) { String* c = new String((usize)n); delete S[i]; S[i] = c; } else ok = 0; }
    else if(IS("copy")) { if(VAR(k)) { String* c = new String(*S[k]); delete S[i]; S[i] = c; } else ok = 0; }
    else if(IS("assign")) { if(VAR(k)) s = *S[k]; else ok = 0; }
    else if(IS("append")) { if(VAR(k) && LEN(i) + LEN(k) <= LMAX) s.append(*S[k]); else ok = 0; }
    else if(IS("prepend")) { if(VAR(k) && LEN(i) + LEN(k) <= LMAX) s.prepend(*S[k]); else ok = 0; }
    else if(IS("appendb")) { if(LEN(i) + dn <= LMAX) s.append((const char*)d, (usize)dn); else ok = 0; }
    else if(IS("prependb")) { if(LEN(i) + dn <= LMAX) s.prepend((const char*)d, (usize)dn); else ok = 0; }
    else if(IS("appendc")) { if(n >= 0 && n <= 255 && LEN(i) < LMAX) s.append((char)n); else ok = 0; }
    else if(IS("clear")) s.clear();
    else if(IS("resize")) { if(n >= 0 && n <= LMAX) s.resize((usize)n); else ok = 0; }
    else if(IS("reserve")) { if(n >= 0 && n <= 4 * LMAX) s.reserve((usize)n); else ok = 0; }
    else if(IS("detach")) s.detach();
    else if(IS("replacec")) { if(n >= 1 && n <= 255 && n2 >= 0 && n2 <= 255) s.replace((char)n, (char)n2); else ok = 0; }
    else if(IS("replace"))
    {
      // (an empty needle must at least return: a short alarm keeps a non-terminating replace from eating the machine's memory)
      if(VAR(k) && VAR(m) && nulfreeS(s) && nulfreeS(*S[k]) && LEN(i) <= LMAX && LEN(i) * LEN(m) <= 4 * LMAX) { if(S[k]->data->len == 0) alarm(2); s.replace(*S[k], *S[m]); alarm(g_op_timeout); }
      else ok = 0;
    }
    else if(IS("lower")) s.toLowerCase();
    else if(IS("upper")) s.toUpperCase();
    else if(IS("trim")) { if(nulfreeS(s) && nulfree(d, dn)) s.trim((const char*)d); else ok = 0; }
    else if(IS("printf"))
    {
      if(VAR(k) && k != i && nulfreeS(*S[k]) && LEN(k) <= LMAX) r = s.printf("%s%d", (const char*)*S[k], (int)n);
      else ok = 0;
    }
    else if(IS("printfw")) { if(n2 >= 1 && n2 <= 400) r = s.printf("%*d", (int)n2, (int)n); else ok = 0; }
    else if(IS("fprintfw")) { if(n2 >= 1 && n2 <= 400) { s = String::fromPrintf("%*d", (int)n2, (int)n); r = (long)s.length(); op = "printfw"; } else ok = 0; }
    else if(IS("join"))
    {
      long tot = 0;
      for(List<String>::Iterator it = L->begin(), end = L->end(); it != end; ++it) tot += (long)it->data->len + 1;
      if(n >= 0 && n <= 255 && tot <= LMAX + 1) s.join(*L, (char)n); else ok = 0;
    }
    else if(IS("split"))
    {
      if(nulfreeS(s) && nulfree(d, dn) && (n == 0 || n == 1) && LEN(i) <= LMAX) r = (long)s.split(*L, (const char*)d, n == 1);
      else ok = 0;
    }
    else if(IS("lpush")) { if((long)L->size() < LSTMAX && LEN(i) <= LMAX) L->append(s); else ok = 0; }
    else if(IS("cstr"))
    {
      const String& cs = s;
      const char* p = cs;                          // operator const char*() const
      rbn = (long)cs.length();
      rb = (unsigned char*)malloc(rbn + 1);
      memcpy(rb, p, rbn);
      r = (unsigned char)p[rbn];
    }
    else if(IS("cstrm"))
    {
      char* p = s;                                 // operator char*()
      rbn = (long)s.length();
      rb = (unsigned char*)malloc(rbn + 1);
      memcpy(rb, p, rbn);
      r = (unsigned char)p[rbn];
    }
    else if(IS("compare")) { if(VAR(k) && nulfreeS(s) && nulfreeS(*S[k])) { int c = s.compare(*S[k]); r = c < 0 ? -1 : c > 0 ? 1 : 0; } else ok = 0; }
    else if(IS("cmpx"))
    {
      // length-limited and case-insensitive comparisons, member and static versions (see ByteStrings!Result)
      if(VAR(k) && nulfreeS(s) && nulfreeS(*S[k]) && n >= 0)
      {
        const String& a = s; const String& b = *S[k];
        #define SGN(x) ((x) < 0 ? 0 : (x) > 0 ? 2 : 1)
        int cn = a.compare(b, (usize)n), ci = a.compareIgnoreCase(b), cin = a.compareIgnoreCase(b, (usize)n);
        r = SGN(cn) + 3 * SGN(ci) + 9 * SGN(cin) + 27 * ((a.equalsIgnoreCase(b) ? 1 : 0) + (a.equalsIgnoreCase(b, (usize)n) ? 2 : 0));
        const char* p1 = a; const char* p2 = b;
        int scn = String::compare(p1, p2, (usize)n), sci = String::compareIgnoreCase(p1, p2), scin = String::compareIgnoreCase(p1, p2, (usize)n), sc = String::compare(p1, p2);
        rn = SGN(scn) + 3 * SGN(sci) + 9 * SGN(scin) + 27 * SGN(sc);
        #undef SGN
      }
      else ok = 0;
    }
    else if(IS("rel"))
    {
      if(VAR(k) && nulfreeS(s) && nulfreeS(*S[k]))
        r = (s < *S[k] ? 1 : 0) + (s <= *S[k] ? 2 : 0) + (s > *S[k] ? 4 : 0) + (s >= *S[k] ? 8 : 0);
      else ok = 0;
    }
    else if(IS("eq")) { if(VAR(k)) r = (s == *S[k] ? 1 : 0) + (s != *S[k] ? 2 : 0); else ok = 0; }
    else if(IS("starts")) { if(VAR(k)) r = s.startsWith(*S[k]) ? 1 : 0; else ok = 0; }
    else if(IS("ends")) { if(VAR(k)) r = s.endsWith(*S[k]) ? 1 : 0; else ok = 0; }
    else if(IS("findc")) { if(n >= 0 && n <= 255) { const String& cs = s; r = idx_of(cs, cs.find((char)n)); } else ok = 0; }
    else if(IS("findlastc")) { if(n >= 0 && n <= 255) { const String& cs = s; r = idx_of(cs, cs.findLast((char)n)); } else ok = 0; }
    else if(IS("findcs")) { if(nulfreeS(s) && n >= 1 && n <= 255 && n2 >= 0) { const String& cs = s; const char* p = cs.find((char)n, (usize)n2); r = idx_of(cs, p); } else ok = 0; }
    else if(IS("find")) { if(nulfreeS(s) && nulfree(d, dn)) { const String& cs = s; const char* p = cs.find((const char*)d); r = idx_of(cs, p); } else ok = 0; }
    else if(IS("findof"))
    {
      // findOneOf(chars), findOneOf(chars, start) (member and static) and findLastOf(chars) (member and static)
      if(nulfreeS(s) && nulfree(d, dn) && n >= 0)
      {
        const String& cs = s; const char* base = cs;
        long f0 = idx_of(cs, cs.findOneOf((const char*)d)), fn = idx_of(cs, cs.findOneOf((const char*)d, (usize)n));
        long fl = idx_of(cs, cs.findLastOf((const char*)d));
        if(idx_of(cs, String::findOneOf(base, (const char*)d)) != f0 || idx_of(cs, String::findLastOf(base, (const char*)d)) != fl) f0 = -7;   // static versions disagree
        r = (f0 + 1) + ((long)cs.length() + 2) * (fn + 1); rn = fl;
      }
      else ok = 0;
    }
    else if(IS("finds")) { if(nulfreeS(s) && nulfree(d, dn) && dn > 0 && n >= 0) { const String& cs = s; const char* p = cs.find((const char*)d, (usize)n); r = idx_of(cs, p); } else ok = 0; }
    else if(IS("findlast")) { if(nulfreeS(s) && nulfree(d, dn)) { const String& cs = s; const char* p = cs.findLast((const char*)d); r = idx_of(cs, p); } else ok = 0; }
    else if(IS("substr"))
    {
      const String& cs = s;
      String t = cs.substr((ssize)n, (ssize)n2);
      rbn = (long)t.length(); rb = (unsigned char*)malloc(rbn + 1); memcpy(rb, raw(t), rbn);
    }
    else if(IS("token"))
    {
      if(nulfreeS(s) && n >= 1 && n <= 255 && n2 >= 0 && (usize)n2 <= s.data->len)
      {
        const String& cs = s; usize start = (usize)n2;
        String t = cs.token((char)n, start);
        rbn = (long)t.length(); rb = (unsigned char*)malloc(rbn + 1); memcpy(rb, raw(t), rbn); rn = (long)start;
      }
      else ok = 0;
    }
    else if(IS("tokens"))
    {
      if(nulfreeS(s) && nulfree(d, dn) && n2 >= 0 && (usize)n2 <= s.data->len)
      {
        const String& cs = s; usize start = (usize)n2;
        String t = cs.token((const char*)d, start);
        rbn = (long)t.length(); rb = (unsigned char*)malloc(rbn + 1); memcpy(rb, raw(t), rbn); rn = (long)start;
      }
      else ok = 0;
    }
    else { fprintf(stderr, "DRIVER-ERROR: unknown op %s\n", op); exit(3); }
  }
  observe(ok ? op : "nop", i, k, m, d, dn, n, n2, r, rb ? rb : (const unsigned char*)"", rbn, rn);
  free(rb);
  free(d);
}
