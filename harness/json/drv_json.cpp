// Driver for nstd::Json (property C15): comment stripper, serialise/parse round trip, parser totality.
//   strip x<hex>          Json::stripComments on an exact-size attached copy       -> in, out
//   parse x<hex>          Json::Parser::parse on an exact-size NUL-terminated heap copy -> text, ok, line, col
//   rt <tree>             build <tree> as Variants, Json::toString, Json::parse    -> orig, text, ok, got, eq
// <tree> (prefix notation): N | T | F | I <int32> | L <int64 decimal> | S x<hex> | A <n> <tree>*n | M <n> (x<hex> <tree>)*n
#include "drv.h"
#include <nstd/Document/Json.hpp>
#include <nstd/Error.hpp>

void drv_init(int, char**) { g_op_timeout = 10; }
static void drop_parser();
void drv_fini() { drop_parser(); }
void drv_reset() { drop_parser(); }

// ---- the driver's own tree (independent of Variant) ------------------------------------------------
struct Node
{
  char kind;              // N T F I L S A M
  long long num;
  unsigned char* bytes; int nbytes;          // S
  int n; Node** kids; unsigned char** keys; int* keylens;   // A, M
};
static Node* read_tree()
{
  const char* t = tok_next();
  if(!t) { fprintf(stderr, "DRIVER-ERROR: truncated tree at line %ld\n", g_lineno); exit(3); }
  Node* nd = (Node*)calloc(1, sizeof(Node));
  nd->kind = t[0];
  switch(t[0])
  {
  case 'N': case 'T': case 'F': break;
  case 'I': case 'L': nd->num = tok_ll(); break;
  case 'S': nd->bytes = tok_bytes(&nd->nbytes, 0); break;
  case 'A': case 'M':
    nd->n = (int)tok_int();
    nd->kids = (Node**)calloc(nd->n + 1, sizeof(Node*));
    nd->keys = (unsigned char**)calloc(nd->n + 1, sizeof(unsigned char*));
    nd->keylens = (int*)calloc(nd->n + 1, sizeof(int));
    for(int i = 0; i < nd->n; ++i)
    {
      if(t[0] == 'M') nd->keys[i] = tok_bytes(&nd->keylens[i], 0);
      nd->kids[i] = read_tree();
    }
    break;
  default: fprintf(stderr, "DRIVER-ERROR: bad tree token %s\n", t); exit(3);
  }
  return nd;
}
static void free_tree(Node* nd)
{
  if(!nd) return;
  free(nd->bytes);
  for(int i = 0; i < nd->n; ++i) { free(nd->keys[i]); free_tree(nd->kids[i]); }
  free(nd->kids); free(nd->keys); free(nd->keylens); free(nd);
}
static void put_bytes(const unsigned char* p, long n)
{
  fputc('[', g_out);
  for(long i = 0; i < n; ++i) fprintf(g_out, i ? ",%d" : "%d", (int)p[i]);
  fputc(']', g_out);
}
static void put_int_node(long long v)
{
  if(v >= -2147483647LL - 1 && v <= 2147483647LL) fprintf(g_out, "{\"t\":\"int\",\"v\":%lld}", v);
  else fprintf(g_out, "{\"t\":\"i64\",\"v\":\"%lld\"}", v);
}
static void put_tree(const Node* nd)
{
  switch(nd->kind)
  {
  case 'N': fputs("{\"t\":\"null\",\"v\":0}", g_out); break;
  case 'T': fputs("{\"t\":\"bool\",\"v\":true}", g_out); break;
  case 'F': fputs("{\"t\":\"bool\",\"v\":false}", g_out); break;
  case 'I': case 'L': put_int_node(nd->num); break;
  case 'S': fputs("{\"t\":\"str\",\"v\":", g_out); put_bytes(nd->bytes, nd->nbytes); fputc('}', g_out); break;
  case 'A':
    fputs("{\"t\":\"list\",\"v\":[", g_out);
    for(int i = 0; i < nd->n; ++i) { if(i) fputc(',', g_out); put_tree(nd->kids[i]); }
    fputs("]}", g_out);
    break;
  case 'M':
    fputs("{\"t\":\"map\",\"v\":[", g_out);
    for(int i = 0; i < nd->n; ++i)
    {
      fputs(i ? ",{\"k\":" : "{\"k\":", g_out); put_bytes(nd->keys[i], nd->keylens[i]);
      fputs(",\"n\":", g_out); put_tree(nd->kids[i]); fputc('}', g_out);
    }
    fputs("]}", g_out);
    break;
  }
}
static void build(const Node* nd, Variant& v)
{
  switch(nd->kind)
  {
  case 'N': v = Variant(); break;
  case 'T': v = true; break;
  case 'F': v = false; break;
  case 'I': v = (int)nd->num; break;
  case 'L': v = (int64)nd->num; break;
  case 'S': v = String((const char*)nd->bytes, nd->nbytes); break;
  case 'A':
    {
      List<Variant>& l = v.toList();
      for(int i = 0; i < nd->n; ++i) build(nd->kids[i], l.append(Variant()));
      break;
    }
  case 'M':
    {
      HashMap<String, Variant>& m = v.toMap();
      for(int i = 0; i < nd->n; ++i) build(nd->kids[i], m.append(String((const char*)nd->keys[i], nd->keylens[i]), Variant()));
      break;
    }
  }
}
// canonical projection of a real Variant (the observation)
static void put_variant(const Variant& v)
{
  switch(v.getType())
  {
  case Variant::nullType: fputs("{\"t\":\"null\",\"v\":0}", g_out); break;
  case Variant::boolType: fprintf(g_out, "{\"t\":\"bool\",\"v\":%s}", v.toBool() ? "true" : "false"); break;
  case Variant::intType: put_int_node(v.toInt()); break;
  case Variant::int64Type: put_int_node(v.toInt64()); break;
  case Variant::uintType: fprintf(g_out, "{\"t\":\"uint\",\"v\":\"%llu\"}", (unsigned long long)v.toUInt()); break;
  case Variant::uint64Type: fprintf(g_out, "{\"t\":\"u64\",\"v\":\"%llu\"}", (unsigned long long)v.toUInt64()); break;
  case Variant::doubleType: fprintf(g_out, "{\"t\":\"double\",\"v\":\"%.17g\"}", v.toDouble()); break;
  case Variant::stringType:
    {
      String s = v.toString();
      fputs("{\"t\":\"str\",\"v\":", g_out); put_bytes((const unsigned char*)(const char*)s, (long)s.length()); fputc('}', g_out);
      break;
    }
  case Variant::listType:
    {
      const List<Variant>& l = v.toList();
      fputs("{\"t\":\"list\",\"v\":[", g_out);
      bool first = true;
      for(List<Variant>::Iterator i = l.begin(), end = l.end(); i != end; ++i) { if(!first) fputc(',', g_out); first = false; put_variant(*i); }
      fputs("]}", g_out);
      break;
    }
  case Variant::arrayType:
    {
      const Array<Variant>& l = v.toArray();
      fputs("{\"t\":\"array\",\"v\":[", g_out);
      for(usize i = 0; i < l.size(); ++i) { if(i) fputc(',', g_out); put_variant(l[i]); }
      fputs("]}", g_out);
      break;
    }
  case Variant::mapType:
    {
      const HashMap<String, Variant>& m = v.toMap();
      fputs("{\"t\":\"map\",\"v\":[", g_out);
      bool first = true;
      for(HashMap<String, Variant>::Iterator i = m.begin(), end = m.end(); i != end; ++i)
      {
        fputs(first ? "{\"k\":" : ",{\"k\":", g_out); first = false;
        put_bytes((const unsigned char*)(const char*)i.key(), (long)i.key().length());
        fputs(",\"n\":", g_out); put_variant(*i); fputc('}', g_out);
      }
      fputs("]}", g_out);
      break;
    }
  }
}

static Json::Parser* g_parser = 0;
// the Variant every round trip parses into: ONE per execution, still holding the previous document's value when the next one
// is parsed (parse replaces the value of its result, it does not merge into it); every third round trip hands the text over
// inside that very Variant (the String overload: the text must stay alive while the result is being replaced)
static Variant* g_got = 0; static long g_rtCount = 0;
static void drop_parser() { delete g_parser; g_parser = 0; delete g_got; g_got = 0; g_rtCount = 0; }

void drv_apply(const char* op)
{
  if(!strcmp(op, "strip"))
  {
    int n; unsigned char* d = tok_bytes(&n, 1);
    String out;
    {
      String in; in.attach((const char*)d, n);          // views the exact-size copy (terminated)
      out = Json::stripComments(in);
    }
    j_begin("strip"); j_bytes("in", d, n);
    j_bytes("out", (const unsigned char*)(const char*)out, (long)out.length());
    j_int("olen", (long long)strlen((const char*)out));
    j_end();
    free(d);
  }
  else if(!strcmp(op, "parse"))
  {
    int n; unsigned char* d = tok_bytes(&n, 1);
    int ok, line = 0, col = 0;
    {
      // ONE parser object per execution, used for every document (state of an earlier document must not leak into a later one)
      if(!g_parser) g_parser = new Json::Parser;
      Json::Parser& parser = *g_parser; Variant result;
      ok = parser.parse((const char*)d, result) ? 1 : 0;
      if(!ok) { line = parser.getErrorLine(); col = parser.getErrorColumn(); }
    }
    j_begin("parse"); j_bytes("text", d, n); j_bool("ok", ok); j_int("line", line); j_int("col", col); j_end();
    free(d);
  }
  else if(!strcmp(op, "rt"))
  {
    Node* nd = read_tree();
    Variant orig; build(nd, orig);
    String text = Json::toString(orig);
    // parse an exact-size heap copy of the produced text
    usize tl = text.length();
    char* copy = (char*)malloc(tl + 1); memcpy(copy, (const char*)text, tl); copy[tl] = 0;
    if(!g_got) g_got = new Variant;
    Variant& got = *g_got;
    bool ok;
    if(++g_rtCount % 3 == 0) { got = String(copy, tl); ok = Json::parse(got.toString(), got); }
    else ok = Json::parse((const char*)copy, got);
    bool eq = ok && orig == got && got == orig;
    j_begin("rt"); j_key("orig"); put_tree(nd); j_bytes("text", (const unsigned char*)copy, (long)tl); j_bool("ok", ok);
    j_key("got"); if(ok) put_variant(got); else fputs("{\"t\":\"none\",\"v\":0}", g_out);
    j_bool("eq", eq); j_end();
    free(copy); free_tree(nd);
  }
  else if(!strcmp(op, "rtdeep"))
  {
    // rtdeep <kinds> : a chain; kinds is a string over A (list of one) / M (map with the single key "k"), leaf int 7.
    // The projection is flat (TLC's JSON reader limits nesting to 255): got = [1|2 per level ..., 7], 0 = anything else
    const char* kinds = tok_next();
    long depth = (long)strlen(kinds);
    Variant orig;
    {
      Variant* cur = &orig;
      for(long i = 0; i < depth; ++i)
        cur = kinds[i] == 'A' ? &cur->toList().append(Variant()) : &cur->toMap().append(String("k"), Variant());
      *cur = 7;
    }
    String text = Json::toString(orig);
    usize tl = text.length();
    char* copy = (char*)malloc(tl + 1); memcpy(copy, (const char*)text, tl); copy[tl] = 0;
    Variant got;
    bool ok = Json::parse((const char*)copy, got);
    bool eq = ok && orig == got && got == orig;
    j_begin("rtdeep"); j_arr_begin("orig");
    for(long i = 0; i < depth; ++i) j_arr_int(kinds[i] == 'A' ? 1 : 2);
    j_arr_int(7); j_arr_end();
    j_int("tlen", (long long)tl); j_bool("ok", ok);
    j_arr_begin("got");
    const Variant* cur = &got;
    for(;;)
    {
      if(cur->getType() == Variant::listType && cur->toList().size() == 1) { j_arr_int(1); cur = &cur->toList().front(); }
      else if(cur->getType() == Variant::mapType && cur->toMap().size() == 1 && cur->toMap().begin().key() == "k") { j_arr_int(2); cur = &*cur->toMap().begin(); }
      else { j_arr_int(cur->getType() == Variant::intType ? cur->toInt() : 0); break; }
    }
    j_arr_end(); j_bool("eq", eq); j_end();
    free(copy);
  }
  else { fprintf(stderr, "DRIVER-ERROR: unknown op %s\n", op); exit(3); }
}
