// Driver for property C20: Process::Arguments (option parsing) and Process (start/open/join/read/write).
//
// usage: drv_proc <ops> <trace> <scratch base dir>          -- driver
//        drv_proc --echo <report file> <directive> args...    -- helper child (started through nstd::Process)
// ops:
//   args x<w1> x<w2> ...      run Process::Arguments over argv = {"prog", w1, w2, ...} (every string on an exact-size
//                             heap block) with the fixed option table; logs the (character, argument) sequence
//   cmd <form> x<tail>        start "<self> --echo <report> c0,i-1,o0,e0 <tail>" through the command-line form of
//                             Process::start (form 0) / Process::open (form 1); logs the argv the child saw
//   spawn <form> <streams> <env> <code> <nin> <nout> <nerr> x<arg>...
//                             form 0 start(exe,argc,argv) 1 open(exe,argc,argv) 2 open(exe,List) 3 start(cmd) 4 open(cmd)
//                             streams: bit mask of Process::Stream; env 0 = inherit (empty map), 1 = explicit map, 2 = explicit map with empty / '='-containing values, 3 = only those;
//                             child exits with <code>, reads <nin> bytes from stdin (if redirected), writes <nout>
//                             pattern bytes to stdout and <nerr> to stderr (only if redirected)
// The child writes what it observed (argv, environment, stdin bytes) into the report file.
#define DRV_NO_MAIN
#include "drv.h"
#include <dlfcn.h>
#include <sys/select.h>
#include <errno.h>
#include <fcntl.h>
#include <sys/stat.h>
#include <sys/wait.h>
#include <nstd/Process.hpp>
#include <nstd/List.hpp>
#include <nstd/Map.hpp>

extern char** environ;

static unsigned char pat(long i) { return (unsigned char)((i * 7 + 3) % 251); }

// ------------------------------------------------------------------------------------------------- helper child
static int write_all(int fd, const unsigned char* p, long n)
{
  while(n > 0)
  {
    ssize_t w = write(fd, p, n);
    if(w < 0) { if(errno == EINTR) continue; return -1; }
    p += w; n -= w;
  }
  return 0;
}
static void emit_pattern(int fd, long n)
{
  unsigned char buf[8192];
  long done = 0;
  while(done < n)
  {
    long k = n - done < (long)sizeof(buf) ? n - done : (long)sizeof(buf);
    for(long i = 0; i < k; ++i) buf[i] = pat(done + i);
    if(write_all(fd, buf, k) != 0) _exit(98);      // the parent must keep the stream open for as long as the child may write
    done += k;
  }
}
static int echo_main(int argc, char** argv)
{
  if(argc < 4) _exit(90);
  int code = 0; long nin = -1, nout = 0, nerr = 0;
  long late = 0;
  sscanf(argv[3], "c%d,i%ld,o%ld,e%ld,L%ld", &code, &nin, &nout, &nerr, &late);      // L<ms>: write the output only after that long
  long got = -1; int ok = 1;
  if(nin >= 0)
  {
    got = 0;
    unsigned char buf[8192];
    for(;;)
    {
      ssize_t r = read(0, buf, sizeof(buf));
      if(r < 0) { if(errno == EINTR) continue; ok = 0; break; }
      if(r == 0) break;
      for(ssize_t i = 0; i < r; ++i) if(buf[i] != pat(got + i)) ok = 0;
      got += r;
    }
  }
  FILE* f = fopen(argv[2], "w");
  if(!f) _exit(91);
  fprintf(f, "X ");
  for(const char* p = argv[0]; *p; ++p) fprintf(f, "%02x", (unsigned char)*p);
  fputc('\n', f);
  for(int i = 4; i < argc; ++i)
  {
    fprintf(f, "A ");
    for(const char* p = argv[i]; *p; ++p) fprintf(f, "%02x", (unsigned char)*p);
    fputc('\n', f);
  }
  for(char** e = environ; *e; ++e)
  {
    fprintf(f, "E ");
    for(const char* p = *e; *p; ++p) fprintf(f, "%02x", (unsigned char)*p);
    fputc('\n', f);
  }
  fprintf(f, "I %ld %d\n", got, ok);
  fprintf(f, "DONE\n");
  fclose(f);
  if(late > 0) usleep((useconds_t)late * 1000);
  if(nout > 0) emit_pattern(1, nout);
  if(nerr > 0) emit_pattern(2, nerr);
  // odd codes leave through the library's own Process::exit (the exit code must reach the parent all the same)
  if(code & 1) Process::exit((uint32)code);
  _exit(code);
}

// ------------------------------------------------------------------------------------------------- driver
static char g_self[600] = "";
static char g_dir[600] = "";
static char g_rep[700] = "";

static const Process::Option g_options[] = {
  {'a', "aa", Process::optionFlag},
  {'b', "ab", Process::argumentFlag},
  {'v', "v", Process::argumentFlag | Process::optionalFlag},
  {1000, "b", Process::optionFlag},
  {'=', 0, Process::argumentFlag},
};

static void cleanup_dir()
{
  if(g_dir[0]) { unlink(g_rep); rmdir(g_dir); }
}
void drv_init(int argc, char** argv)
{
  ssize_t n = readlink("/proc/self/exe", g_self, sizeof(g_self) - 1);
  if(n <= 0) { perror("readlink self"); exit(3); }
  g_self[n] = 0;
  if(argc > 3)
  {
    snprintf(g_dir, sizeof(g_dir), "%s/proc.%d", argv[3], (int)getpid());
    snprintf(g_rep, sizeof(g_rep), "%s/rep", g_dir);
    if(mkdir(g_dir, 0755) != 0) { perror(g_dir); exit(3); }
    atexit(cleanup_dir);
  }
  signal(SIGPIPE, SIG_IGN);
}
void drv_fini() { cleanup_dir(); g_dir[0] = 0; }
void drv_reset() {}

static void j_hexstr_bytes(const char* hex)       // hex text -> JSON array of ints
{
  fputc('[', g_out);
  for(int i = 0; hex[i] && hex[i + 1] && hex[i] != '\n'; i += 2) fprintf(g_out, i ? ",%d" : "%d", hexv(hex[i]) * 16 + hexv(hex[i + 1]));
  fputc(']', g_out);
}

// ---- args
static void do_args()
{
  char* words[16]; int lens[16]; int nw = 0;
  while(tok_more() && nw < 15) { int n; words[nw] = (char*)tok_bytes(&n, 1); lens[nw] = n; ++nw; }
  int argc = nw + 1;
  char** argv = (char**)malloc(sizeof(char*) * argc);          // exactly argc pointers
  argv[0] = (char*)malloc(5); memcpy(argv[0], "prog", 5);
  for(int i = 0; i < nw; ++i) argv[i + 1] = words[i];
  j_begin("args");
  fputs(",\"argv\":[", g_out);
  for(int i = 0; i < nw; ++i) { if(i) fputc(',', g_out); fputc('[', g_out); for(int k = 0; k < lens[i]; ++k) fprintf(g_out, k ? ",%d" : "%d", (int)(unsigned char)words[i][k]); fputc(']', g_out); }
  fputs("],\"out\":[", g_out);
  int n = 0;
  {
    Process::Arguments arguments(argc, argv, g_options);
    int character; String argument;
    while(arguments.read(character, argument))
    {
      if(n) fputc(',', g_out);
      fprintf(g_out, "{\"c\":%d,\"a\":[", character);
      const char* a = argument; usize len = argument.length();
      for(usize k = 0; k < len; ++k) fprintf(g_out, k ? ",%d" : "%d", (int)(unsigned char)a[k]);
      fputs("]}", g_out);
      if(++n > 64) { n = -1; break; }
    }
  }
  fputc(']', g_out);
  j_int("n", n);
  j_end();
  for(int i = 0; i < argc; ++i) free(argv[i]);
  free(argv);
}

// ---- report parsing
struct Report { int done; long got; int ok; };
static Report log_report(int wantEnv)
{
  Report r = {0, -1, 0};
  static char line[1 << 16];
  FILE* f = fopen(g_rep, "r");
  char* exe = 0;
  // first pass: exe, args
  fputs(",\"cargs\":[", g_out);
  int na = 0;
  if(f)
  {
    while(fgets(line, sizeof(line), f))
    {
      if(line[0] == 'A') { if(na++) fputc(',', g_out); j_hexstr_bytes(line + 2); }
      else if(line[0] == 'X') exe = strdup(line + 2);
      else if(line[0] == 'I') sscanf(line + 2, "%ld %d", &r.got, &r.ok);
      else if(!strncmp(line, "DONE", 4)) r.done = 1;
    }
    rewind(f);
  }
  fputs("],\"cexe\":", g_out);
  if(exe) { j_hexstr_bytes(exe); free(exe); } else fputs("[]", g_out);
  fputs(",\"cenv\":[", g_out);
  int ne = 0;
  if(f && wantEnv)
    while(fgets(line, sizeof(line), f))
      if(line[0] == 'E') { char* nl = strchr(line, '\n'); if(nl) *nl = 0; fprintf(g_out, ne++ ? ",\"%s\"" : "\"%s\"", line + 2); }
  fputc(']', g_out);
  if(f) fclose(f);
  unlink(g_rep);
  return r;
}
static void j_hex_of(const char* s) { for(; *s; ++s) fprintf(g_out, "%02x", (unsigned char)*s); }

// reads everything the child writes to its redirected output streams; returns 0, or -1 on a read error
// select() interposed at link time: after the op "selto" the next call behaves like an expired time-out (returns 0 with the
// descriptor set cleared and the timeval zeroed, as the kernel leaves them); the multiplexed Process::read has to arm both again
static int g_selto = 0;
extern "C" int select(int nfds, fd_set* rd, fd_set* wr, fd_set* ex, struct timeval* tv)
{
  typedef int (*fn_t)(int, fd_set*, fd_set*, fd_set*, struct timeval*);
  static fn_t real = 0;
  if(!real) real = (fn_t)dlsym(RTLD_NEXT, "select");
  if(g_selto && rd)
  {
    g_selto = 0;
    FD_ZERO(rd);
    if(tv) { tv->tv_sec = 0; tv->tv_usec = 0; }
    return 0;
  }
  return real(nfds, rd, wr, ex, tv);
}
static int drain(Process& p, uint streams, long* nout, int* okout, long* nerr, int* okerr)
{
  static unsigned char buf[70000];
  uint open = streams & (Process::stdoutStream | Process::stderrStream);
  int guard = 0;
  while(open)
  {
    if(++guard > 2000000) return -1;
    if(open == Process::stdoutStream)
    {
      ssize r = p.read(buf, sizeof(buf));
      if(r < 0) { if(errno == EINTR) continue; return -1; }
      if(r == 0) { open = 0; break; }
      for(ssize i = 0; i < r; ++i) if(buf[i] != pat(*nout + i)) *okout = 0;
      *nout += r;
    }
    else
    {
      uint which = open;
      ssize r = p.read(buf, sizeof(buf), which);
      if(r < 0) { if(errno == EINTR) continue; return -1; }
      if(which != Process::stdoutStream && which != Process::stderrStream) return -1;
      if(r == 0) { open &= ~which; p.close(which); continue; }
      long* n = which == Process::stdoutStream ? nout : nerr;
      int* ok = which == Process::stdoutStream ? okout : okerr;
      for(ssize i = 0; i < r; ++i) if(buf[i] != pat(*n + i)) *ok = 0;
      *n += r;
    }
  }
  return 0;
}

static void do_cmd()
{
  int form = (int)tok_int();
  int n; char* tail = (char*)tok_bytes(&n, 1);
  String cl;
  cl.append(g_self, String::length(g_self));
  cl.append(" --echo ");
  cl.append(g_rep, String::length(g_rep));
  cl.append(" c0,i-1,o0,e0");
  if(n) { cl.append(' '); cl.append(tail, (usize)n); }
  unlink(g_rep);
  Process p;
  bool started = form == 0 ? p.start(cl) != 0 : p.open(cl, Process::stdoutStream);
  uint32 xc = 999; bool jr = false;
  if(started)
  {
    if(form == 1) { long a = 0, b = 0; int oa = 1, ob = 1; drain(p, Process::stdoutStream, &a, &oa, &b, &ob); }
    jr = p.join(xc);
  }
  j_begin("cmd");
  j_int("form", form);
  j_bytes("cl", (const unsigned char*)tail, n);
  j_bool("started", started); j_bool("jr", jr); j_int("xc", xc);
  Report r = log_report(0);
  j_bool("rep", r.done);
  j_end();
  free(tail);
}

static void do_spawn()
{
  int form = (int)tok_int(); uint streams = (uint)tok_int(); int envMode = (int)tok_int(); int code = (int)tok_int();
  long nin = tok_int(), nout = tok_int(), nerr = tok_int();
  char* words[16]; int lens[16]; int nw = 0;
  while(tok_more() && nw < 15) { int n; words[nw] = (char*)tok_bytes(&n, 1); lens[nw] = n; ++nw; }
  if(form == 0 || form == 3) streams = 0;
  long cin = (streams & Process::stdinStream) ? nin : -1;
  if(!(streams & Process::stdoutStream)) nout = 0;
  if(!(streams & Process::stderrStream)) nerr = 0;
  char directive[128];
  snprintf(directive, sizeof(directive), "c%d,i%ld,o%ld,e%ld", code, cin, nout, nerr);
  Map<String, String> env;
  if(envMode)
  {
    env.insert("FOO", "bar");
    env.insert("VERIF_SPAWN", "x y");
    env.insert("ASAN_OPTIONS", "detect_leaks=0");
    // env 2: values that are empty (set-but-empty differs from unset on POSIX) or contain '='; env 3: nothing but such variables
    if(envMode >= 2) { env.insert("VERIF_EMPTY", ""); env.insert("VERIF_EQ", "a=b="); }
    if(envMode == 3) { env.remove("FOO"); env.remove("VERIF_SPAWN"); }
  }
  // child argv: self --echo rep directive words...
  int argc = 4 + nw;
  char** argv = (char**)malloc(sizeof(char*) * (argc + 1));
  argv[0] = g_self; argv[1] = (char*)"--echo"; argv[2] = g_rep; argv[3] = directive;
  for(int i = 0; i < nw; ++i) argv[4 + i] = words[i];
  argv[argc] = 0;
  String exe(g_self, String::length(g_self));
  unlink(g_rep);
  Process p;
  bool started = false;
  if(form == 0) started = p.start(exe, argc, argv, env) != 0;
  else if(form == 1) started = p.open(exe, argc, argv, streams, env);
  else if(form == 2)
  {
    List<String> l;
    for(int i = 0; i < argc; ++i) l.append(String(argv[i], String::length(argv[i])));
    started = p.open(exe, l, streams, env);
  }
  else
  {
    // command-line forms: plain words only (no characters that need quoting)
    String cl;
    for(int i = 0; i < argc; ++i) { if(i) cl.append(' '); cl.append(argv[i], String::length(argv[i])); }
    started = form == 3 ? p.start(cl, env) != 0 : p.open(cl, streams, env);
  }
  long sent = 0, gout = 0, gerr = 0; int okout = 1, okerr = 1, rdok = 1;
  uint32 xc = 999; bool jr = false;
  if(started)
  {
    if(streams & Process::stdinStream)
    {
      static unsigned char buf[8192];
      while(sent < nin)
      {
        long k = nin - sent < (long)sizeof(buf) ? nin - sent : (long)sizeof(buf);
        for(long i = 0; i < k; ++i) buf[i] = pat(sent + i);
        ssize w = p.write(buf, (usize)k);
        if(w <= 0) { if(w < 0 && errno == EINTR) continue; break; }
        sent += w;
      }
      p.close(Process::stdinStream);
    }
    if(drain(p, streams, &gout, &okout, &gerr, &okerr) != 0) rdok = 0;
    jr = p.join(xc);
  }
  j_begin("spawn");
  j_int("form", form); j_int("streams", streams); j_int("env", envMode); j_int("code", code);
  j_int("nin", cin); j_int("nout", nout); j_int("nerr", nerr);
  fputs(",\"args\":[", g_out);
  for(int i = 0; i < nw; ++i) { if(i) fputc(',', g_out); fputc('[', g_out); for(int k = 0; k < lens[i]; ++k) fprintf(g_out, k ? ",%d" : "%d", (int)(unsigned char)words[i][k]); fputc(']', g_out); }
  fputs("],\"exe\":[", g_out);
  for(int k = 0; g_self[k]; ++k) fprintf(g_out, k ? ",%d" : "%d", (int)(unsigned char)g_self[k]);
  fputs("],\"xenv\":[", g_out);               // the environment the child must see
  if(envMode)
  {
    int k = 0;
    for(Map<String, String>::Iterator i = env.begin(), end = env.end(); i != end; ++i)
    { fputs(k++ ? ",\"" : "\"", g_out); j_hex_of(i.key()); j_hex_of("="); j_hex_of(*i); fputc('"', g_out); }
  }
  else
  {
    int k = 0;
    for(char** e = environ; *e; ++e) { fputs(k++ ? ",\"" : "\"", g_out); j_hex_of(*e); fputc('"', g_out); }
  }
  fputc(']', g_out);
  j_bool("started", started); j_bool("jr", jr); j_int("xc", xc);
  j_int("sent", sent); j_int("gout", gout); j_bool("okout", okout); j_int("gerr", gerr); j_bool("okerr", okerr); j_bool("rdok", rdok);
  Report r = log_report(1);
  j_bool("rep", r.done); j_int("gin", r.got); j_bool("okin", r.ok);
  j_end();
  for(int i = 0; i < nw; ++i) free(words[i]);
  free(argv);
}

// spawn2 <code1> <nin1> <nout1> <code2> <nout2> <nerr2>: two Process objects alive at the same time.  The first child gets
// its input and has its stdin closed; then the second child is opened with all three streams (descriptor numbers freed by
// the first are taken again); then the first is drained and joined, then the second.  Each child's streams and exit code
// must be its own (one Process must not touch descriptors that belong to another).
// An optional 7th argument 1 opens the second child BEFORE the first child's stdin is closed: the first child must still see
// the end of its input when the parent closes the stream (a descriptor of one Process must not leak into another child), or
// its output can never be read up to end-of-file.
static void do_spawn2()
{
  int code1 = (int)tok_int(); long nin1 = tok_int(), nout1 = tok_int();
  int code2 = (int)tok_int(); long nout2 = tok_int(), nerr2 = tok_int();
  const char* e = tok_next(); int early = e && e[0] == '1';
  char d1[128], d2[128];
  snprintf(d1, sizeof(d1), "c%d,i%ld,o%ld,e0", code1, nin1, nout1);
  snprintf(d2, sizeof(d2), "c%d,i0,o%ld,e%ld", code2, nout2, nerr2);
  char* a1[] = { g_self, (char*)"--echo", g_rep, d1, 0 };
  char* a2[] = { g_self, (char*)"--echo", g_rep, d2, 0 };
  String exe(g_self, String::length(g_self));
  Map<String, String> env;
  Process first, second;
  uint s1 = Process::stdinStream | Process::stdoutStream, s2 = Process::stdinStream | Process::stdoutStream | Process::stderrStream;
  bool st1 = first.open(exe, 4, a1, s1, env), st2 = false;
  long sent = 0, go1 = 0, ge1 = 0, go2 = 0, ge2 = 0; int oko1 = 1, oke1 = 1, oko2 = 1, oke2 = 1, rd1 = 1, rd2 = 1;
  uint32 xc1 = 999, xc2 = 999; bool jr1 = false, jr2 = false;
  if(st1)
  {
    static unsigned char buf[8192];
    while(sent < nin1)
    {
      long k = nin1 - sent < (long)sizeof(buf) ? nin1 - sent : (long)sizeof(buf);
      for(long i = 0; i < k; ++i) buf[i] = pat(sent + i);
      ssize w = first.write(buf, (usize)k);
      if(w <= 0) { if(w < 0 && errno == EINTR) continue; break; }
      sent += w;
    }
    if(early) st2 = second.open(exe, 4, a2, s2, env);
    first.close(Process::stdinStream);
    if(!early) st2 = second.open(exe, 4, a2, s2, env);
    if(drain(first, Process::stdoutStream, &go1, &oko1, &ge1, &oke1) != 0) rd1 = 0;
    jr1 = first.join(xc1);
    if(st2)
    {
      second.close(Process::stdinStream);
      if(drain(second, Process::stdoutStream | Process::stderrStream, &go2, &oko2, &ge2, &oke2) != 0) rd2 = 0;
      jr2 = second.join(xc2);
    }
  }
  j_begin("spawn2");
  j_int("code1", code1); j_int("nin1", nin1); j_int("nout1", nout1); j_int("code2", code2); j_int("nout2", nout2); j_int("nerr2", nerr2);
  j_bool("st1", st1); j_bool("st2", st2); j_int("sent", sent);
  j_int("go1", go1); j_bool("oko1", oko1 && rd1); j_bool("jr1", jr1); j_int("xc1", xc1);
  j_int("go2", go2); j_bool("oko2", oko2 && rd2); j_int("ge2", ge2); j_bool("oke2", oke2); j_bool("jr2", jr2); j_int("xc2", xc2);
  j_end();
}

// spawnlate <code> <nout>: the child writes its (small) output only after 300 ms; the parent does not read it but joins at once:
// join() must wait for the child and report ITS exit code (the child must be able to finish writing)
static void do_spawnlate()
{
  int code = (int)tok_int(); long nout = tok_int();
  char d[128]; snprintf(d, sizeof(d), "c%d,i-1,o%ld,e0,L300", code, nout);
  char* a[] = { g_self, (char*)"--echo", g_rep, d, 0 };
  String exe(g_self, String::length(g_self));
  Map<String, String> env;
  Process p;
  bool st = p.open(exe, 4, a, Process::stdoutStream, env);
  uint32 xc = 999; bool jr = false;
  if(st) jr = p.join(xc);
  j_begin("spawnlate"); j_int("code", code); j_int("nout", nout); j_bool("st", st); j_bool("jr", jr); j_int("xc", xc); j_end();
}

void drv_apply(const char* op)
{
  if(!strcmp(op, "spawnlate")) { do_spawnlate(); return; }
  if(!strcmp(op, "spawn2")) { do_spawn2(); return; }
  if(!strcmp(op, "selto")) { g_selto = 1; fputs("{\"op\":\"selto\"}\n", g_out); return; }
  if(!strcmp(op, "args")) do_args();
  else if(!strcmp(op, "cmd")) do_cmd();
  else if(!strcmp(op, "spawn")) do_spawn();
  else { fprintf(stderr, "DRIVER-ERROR: unknown op %s\n", op); exit(3); }
}

int main(int argc, char** argv)
{
  if(argc > 1 && !strcmp(argv[1], "--echo")) return echo_main(argc, argv);
  if(argc < 4) { fprintf(stderr, "usage: %s <ops> <trace> <scratch base>\n", argv[0]); return 2; }
  FILE* in = fopen(argv[1], "r");
  g_out = fopen(argv[2], "w");
  if(!in || !g_out) { perror("open"); return 2; }
  setvbuf(g_out, 0, _IOLBF, 1 << 16);
  signal(SIGALRM, drv_on_alarm);
  g_op_timeout = 6;
  drv_init(argc, argv);
  while(fgets(g_line, sizeof(g_line), in))
  {
    ++g_lineno;
    g_cur = g_line;
    const char* op = tok_next();
    if(!op || op[0] == '#') continue;
    alarm(g_op_timeout);
    if(strcmp(op, "reset") == 0) { drv_reset(); fputs("{\"op\":\"reset\"}\n", g_out); }
    else drv_apply(op);
    alarm(0);
  }
  drv_fini();
  fclose(g_out);
  return 0;
}
