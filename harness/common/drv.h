// Minimal driver framework shared by all nstd-facing harness translation units.
// C headers only: nstd's Base.hpp defines placement new inline, so <new>/STL cannot be included here.
//
// Protocol: argv[1] = op file (text, one op per line, "reset" starts a new execution),
//           argv[2] = trace file (one JSON object per executed line).
// A driver defines   void drv_reset();   void drv_apply(const char* op);
// and uses tok_*() to read the arguments and j_*() to write the event.
#pragma once
#include <stdio.h>
#include <stdlib.h>
#include <string.h>
#include <signal.h>
#include <unistd.h>
#include <stdint.h>

// the NSTD_VERIF hooks of /repo (Atomic.hpp, ...) call this; sequential drivers have no scheduler: a no-op
extern "C" void nstd_verif_point(int, const volatile void*) {}
extern "C" void nstd_verif_pool_cfg(unsigned long*, unsigned long*, unsigned long*) {}   // thread pool keeps its defaults

static FILE* g_out = 0;
static char g_line[1 << 16];
static char* g_cur = 0;
static long g_lineno = 0;
static int g_first_field = 1;
static int g_op_timeout = 20;
static long g_op_work = 0;                // work units (element constructions) of the current operation, see tracked.h

static const char* tok_next()
{
  while(*g_cur == ' ' || *g_cur == '\t') ++g_cur;
  if(!*g_cur || *g_cur == '\n') return 0;
  char* s = g_cur;
  while(*g_cur && *g_cur != ' ' && *g_cur != '\t' && *g_cur != '\n') ++g_cur;
  if(*g_cur) *g_cur++ = 0;
  return s;
}
static int tok_more()
{
  while(*g_cur == ' ' || *g_cur == '\t') ++g_cur;
  return *g_cur && *g_cur != '\n';
}
static long tok_int()
{
  const char* t = tok_next();
  if(!t) { fprintf(stderr, "DRIVER-ERROR: missing int token at line %ld\n", g_lineno); exit(3); }
  return strtol(t, 0, 10);
}
static long long tok_ll()
{
  const char* t = tok_next();
  if(!t) { fprintf(stderr, "DRIVER-ERROR: missing int token at line %ld\n", g_lineno); exit(3); }
  return strtoll(t, 0, 10);
}
static int hexv(char c) { return c <= '9' ? c - '0' : (c | 32) - 'a' + 10; }
// byte string token x<hex>; returns an exact-size heap copy (so that ASan sees one-byte over-reads); caller frees
// with free().  If nul_terminate, one extra 0 byte is appended (and included in the allocation).
static unsigned char* tok_bytes(int* n, int nul_terminate)
{
  const char* t = tok_next();
  if(!t || t[0] != 'x') { fprintf(stderr, "DRIVER-ERROR: missing bytes token at line %ld\n", g_lineno); exit(3); }
  int len = (int)strlen(t + 1) / 2;
  unsigned char* p = (unsigned char*)malloc(len + (nul_terminate ? 1 : 0) + ((len + nul_terminate) == 0 ? 1 : 0));
  for(int i = 0; i < len; ++i) p[i] = (unsigned char)(hexv(t[1 + 2 * i]) * 16 + hexv(t[2 + 2 * i]));
  if(nul_terminate) p[len] = 0;
  *n = len;
  return p;
}

static void j_begin(const char* op) { fprintf(g_out, "{\"op\":\"%s\"", op); g_first_field = 0; }
static void j_int(const char* k, long long v) { fprintf(g_out, ",\"%s\":%lld", k, v); }
static void j_bool(const char* k, int v) { fprintf(g_out, ",\"%s\":%s", k, v ? "true" : "false"); }
static void j_str(const char* k, const char* v) { fprintf(g_out, ",\"%s\":\"%s\"", k, v); }
static void j_bytes(const char* k, const unsigned char* p, long n)
{
  fprintf(g_out, ",\"%s\":[", k);
  for(long i = 0; i < n; ++i) fprintf(g_out, i ? ",%d" : "%d", (int)p[i]);
  fputc(']', g_out);
}
static void j_key(const char* k) { fprintf(g_out, ",\"%s\":", k); }
static void j_raw(const char* s) { fputs(s, g_out); }
// arrays of ints
static void j_arr_begin(const char* k) { fprintf(g_out, ",\"%s\":[", k); g_first_field = 1; }
static void j_arr_int(long long v) { fprintf(g_out, g_first_field ? "%lld" : ",%lld", v); g_first_field = 0; }
static void j_arr_sep() { if(!g_first_field) fputc(',', g_out); g_first_field = 0; }
static void j_arr_end() { fputc(']', g_out); g_first_field = 0; }
static void j_end() { fputs("}\n", g_out); }

static void drv_on_alarm(int)
{
  static const char msg[] = "DRIVER-HANG: operation did not return\n";
  (void)!write(2, msg, sizeof(msg) - 1);
  _exit(97);
}

void drv_reset();
void drv_apply(const char* op);
void drv_init(int argc, char** argv);
void drv_fini();

#ifndef DRV_NO_MAIN
int main(int argc, char** argv)
{
  if(argc < 3) { fprintf(stderr, "usage: %s <ops> <trace>\n", argv[0]); return 2; }
  FILE* in = fopen(argv[1], "r");
  g_out = fopen(argv[2], "w");
  if(!in || !g_out) { perror("open"); return 2; }
  setvbuf(g_out, 0, _IOLBF, 1 << 16);
  signal(SIGALRM, drv_on_alarm);
  drv_init(argc, argv);
  while(fgets(g_line, sizeof(g_line), in))
  {
    ++g_lineno;
    g_cur = g_line;
    const char* op = tok_next();
    if(!op || op[0] == '#') continue;
    alarm(g_op_timeout);
    g_op_work = 0;
    if(strcmp(op, "reset") == 0)
    {
      drv_reset();
      fputs("{\"op\":\"reset\"}\n", g_out);
    }
    else
      drv_apply(op);
    alarm(0);
  }
  drv_fini();    // destroy everything so that LeakSanitizer sees real leaks only
  fclose(g_out);
  return 0;
}
#endif
