// Tracked: element/key type for the container drivers (properties C01-C05).
// Every instance has a unique serial; a registry records construction, copy, assignment, destruction and any use of
// a dead instance.  C headers only (see drv.h).
#pragma once
#include <stdio.h>
#include <stdlib.h>
#include <string.h>
#include <nstd/Base.hpp>

enum { TRK_MAX = 1 << 26 };   // serial numbers are never reused: long histories over thousands of keys construct tens of millions of temporaries
static unsigned char* trk_state = 0;      // 0 = never used, 1 = alive, 2 = destroyed
static long trk_next = 1;                 // next serial
static long trk_constructed = 0;          // all constructors (default, value, copy)
static long trk_copies = 0;               // copy constructions
static long trk_assigns = 0;              // copy assignments
static long trk_destroyed = 0;
static long trk_errors = 0;               // touch-after-destroy, double destroy, use of unconstructed memory
static long trk_cmp = 0;                  // comparisons (operator<, >, ==, !=)
static char trk_first_error[160] = "";

static void trk_error(const char* what, long serial)
{
  if(!trk_errors) snprintf(trk_first_error, sizeof(trk_first_error), "%s serial=%ld", what, serial);
  ++trk_errors;
}
static void trk_reset_registry()
{
  if(!trk_state) trk_state = (unsigned char*)calloc(TRK_MAX, 1);
  else memset(trk_state, 0, trk_next < TRK_MAX ? trk_next + 1 : TRK_MAX);
  trk_next = 1; trk_constructed = trk_copies = trk_assigns = trk_destroyed = trk_errors = trk_cmp = 0;
  trk_first_error[0] = 0;
}
static long trk_live() { return trk_constructed - trk_destroyed; }

struct Tracked
{
  long serial;
  int value;
  unsigned magic;                        // 0x600DF00D while alive, 0xDEADDEAD after destruction

  void born()
  {
    // one operation that constructs millions of elements does not terminate in any useful sense (e.g. a container
    // inserted into itself that keeps walking over its own insertions): reported like a hang, before memory runs out
    if(++g_op_work > 3000000) { static const char m[] = "DRIVER-HANG: one operation constructed more than 3000000 elements\n"; (void)!write(2, m, sizeof(m) - 1); _exit(97); }
    serial = trk_next++;
    if(serial >= TRK_MAX) { fprintf(stderr, "DRIVER-ERROR: too many Tracked instances\n"); exit(3); }
    trk_state[serial] = 1; magic = 0x600DF00Du; ++trk_constructed;
  }
  void check(const char* what) const
  {
    if(magic != 0x600DF00Du || serial <= 0 || serial >= trk_next || trk_state[serial] != 1) trk_error(what, magic == 0xDEADDEADu ? serial : -1);
  }
  Tracked() : value(0) { born(); }
  Tracked(int v) : value(v) { born(); }
  Tracked(const Tracked& o) : value(o.value) { o.check("copy-from-dead"); born(); ++trk_copies; }
  Tracked& operator=(const Tracked& o) { check("assign-to-dead"); o.check("assign-from-dead"); value = o.value; ++trk_assigns; return *this; }
  ~Tracked()
  {
    if(magic == 0xDEADDEADu) { trk_error("double-destroy", serial); return; }
    check("destroy-unconstructed");
    if(serial > 0 && serial < TRK_MAX) trk_state[serial] = 2;
    magic = 0xDEADDEADu; ++trk_destroyed;
  }
  bool operator==(const Tracked& o) const { check("cmp-dead"); o.check("cmp-dead"); ++trk_cmp; return value == o.value; }
  bool operator!=(const Tracked& o) const { check("cmp-dead"); o.check("cmp-dead"); ++trk_cmp; return value != o.value; }
  bool operator<(const Tracked& o) const { check("cmp-dead"); o.check("cmp-dead"); ++trk_cmp; return value < o.value; }
  bool operator>(const Tracked& o) const { check("cmp-dead"); o.check("cmp-dead"); ++trk_cmp; return value > o.value; }
};
// nstd's hash containers call the free function hash(key); identity-like so that "% capacity" collisions are controlled
inline usize hash(const Tracked& t) { t.check("hash-dead"); return (usize)t.value; }

// NoCopy: for PoolList/PoolMap (elements are constructed in place and must never be copied).
struct NoCopy
{
  long serial; int value; unsigned magic;
  NoCopy() : value(0) { serial = trk_next++; trk_state[serial] = 1; magic = 0x600DF00Du; ++trk_constructed; }
  ~NoCopy()
  {
    if(magic != 0x600DF00Du) { trk_error("double-destroy", serial); return; }
    trk_state[serial] = 2; magic = 0xDEADDEADu; ++trk_destroyed;
  }
private:
  NoCopy(const NoCopy&);
  NoCopy& operator=(const NoCopy&);
};

// stable small ids for addresses (first-seen order within one execution)
enum { ADDR_MAX = 1 << 16 };
static const void* addr_tab[ADDR_MAX];
static int addr_n = 0;
static void addr_reset() { addr_n = 0; }
static int addr_id(const void* p)
{
  for(int i = addr_n - 1; i >= 0; --i) if(addr_tab[i] == p) return i + 1;   // recent addresses first
  if(addr_n < ADDR_MAX) { addr_tab[addr_n++] = p; return addr_n; }
  return -1;
}
// convention: every event of a container driver carries  "lt":[constructed, destroyed, copies, assigns, errors]
#define J_LIFETIME() fprintf(g_out, ",\"lt\":[%ld,%ld,%ld,%ld,%ld]", trk_constructed, trk_destroyed, trk_copies, trk_assigns, trk_errors)
