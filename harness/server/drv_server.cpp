// Driver for nstd Server (properties C13 and C14).  The real Server/Socket code runs against a thin OS shim that is
// defined in this executable and therefore takes precedence over libc:
//   send()          scripted outcome per call: W would-block, F full, P<k> partial (k bytes really sent), E error, Z zero
//   epoll_wait()    scripted: every call consumes one step that says which REAL readiness may be reported
//                   (the shim filters what the kernel reports, it never invents an event); with nothing to report
//                   the virtual clock advances by the requested time-out; when the script is exhausted the shim
//                   calls Server::interrupt() so that run() returns
//   epoll_ctl()     recorded (data.ptr -> fd) so that events can be attributed to clients
//   clock_gettime() virtual monotonic clock
// Ops: see drv_apply().  Every call, every intercepted send, every poll and every callback is one trace event.
#include "drv.h"
#include <poll.h>
#include <dlfcn.h>
#include <errno.h>
#include <time.h>
#include <sys/epoll.h>
#include <sys/socket.h>
#include <fcntl.h>
#define private public
#define protected public
#include <nstd/Socket/Server.hpp>
#include <nstd/Socket/Socket.hpp>
#undef private
#undef protected

enum { NC = 3, NT = 6, MAXSTEPS = 64, MAXQ = 16 };

static Server* srv = 0;
static long long vnow = 1000;            // virtual monotonic clock, ms
static int scripting = 0;                // shim active (inside an execution)
static long g_reset_line = 0;

// ---- clients
struct ClientCb;
static Server::Client* cl[NC + 1];
static Socket* peer[NC + 1];
static Socket* palias[NC + 1];           // peer of an ACCEPTED client: the harness socket hs[h] that connected (not owned)
static Socket* pr(int c) { return peer[c] ? peer[c] : palias[c]; }
static int clfd[NC + 1];
static ClientCb* ccb[NC + 1];
static long acc[NC + 1];                 // bytes accepted so far (position of the next byte to write)
static long pacc[NC + 1];                // bytes the peer has sent so far
static long wired[NC + 1], pgotn[NC + 1];   // bytes the OS took from the client / bytes the peer has read (to know whether TCP data is still in flight)
static int inwrite_c = 0, inwrite_n = 0; // a Client::write call is in progress
// ---- listeners (accept connections from harness sockets) and establishers (connect to harness listening sockets)
enum { NLS = 2, NES = 2, NH = 4 };
struct ListenerCb;
struct EstablisherCb;
static Server::Listener* lst[NLS + 1];
static int lstfd[NLS + 1];
static ListenerCb* lcb[NLS + 1];
static Server::Establisher* est[NES + 1];
static int estfd[NES + 1];
static EstablisherCb* ecb[NES + 1];
static Socket* hs[NH + 1];                // harness-side sockets: connectors to a listener, or listening sockets for establishers
// ---- timers
struct TimerCb;
static Server::Timer* tm[NT + 1];
static TimerCb* tcb[NT + 1];
// ---- scripts
static char sendOutcome[MAXQ]; static int sendK[MAXQ]; static int sendQn = 0;      // pending send outcomes
static char steps[MAXSTEPS][16]; static int nsteps = 0, stepi = 0;                 // epoll script of the current run
static char cbq[MAXQ][256]; static int cbqn = 0;                                   // queued callback action lists
static struct { void* ptr; int fd; } ptrmap[64]; static int nptr = 0;

static int clientOfFd(int fd) { for(int c = 1; c <= NC; ++c) if(cl[c] && clfd[c] == fd) return c; return 0; }
// object id used in poll events: client c, listener 10 + l, establisher 20 + e, 0 = unknown
static int objOfFd(int fd)
{
  int c = clientOfFd(fd);
  if(c) return c;
  for(int l = 1; l <= NLS; ++l) if(lst[l] && lstfd[l] == fd) return 10 + l;
  for(int e = 1; e <= NES; ++e)
  {
    // an establisher created from a host name opens its socket only after the resolver has finished
    if(est[e] && estfd[e] == -2) { int f = (int)((Socket*)est[e])->getFileDescriptor(); if(f >= 0 && ((Socket*)est[e])->isOpen()) estfd[e] = f; }
    if(est[e] && estfd[e] == fd) return 20 + e;
  }
  return 0;
}
static int fdOfPtr(void* p) { for(int i = 0; i < nptr; ++i) if(ptrmap[i].ptr == p) return ptrmap[i].fd; return -1; }

static void ev_begin(const char* op) { j_begin(op); j_int("ln", g_lineno - g_reset_line); }

// ------------------------------------------------------------------------------------------------- OS shim
typedef ssize_t (*send_fn)(int, const void*, size_t, int);
typedef int (*epoll_wait_fn)(int, struct epoll_event*, int, int);
typedef int (*epoll_ctl_fn)(int, int, int, struct epoll_event*);
typedef int (*clock_gettime_fn)(clockid_t, struct timespec*);
static send_fn real_send = 0;
static epoll_wait_fn real_epoll_wait = 0;
static epoll_ctl_fn real_epoll_ctl = 0;
static clock_gettime_fn real_clock_gettime = 0;
static void resolve_real()
{
  if(real_send) return;
  real_send = (send_fn)dlsym(RTLD_NEXT, "send");
  real_epoll_wait = (epoll_wait_fn)dlsym(RTLD_NEXT, "epoll_wait");
  real_epoll_ctl = (epoll_ctl_fn)dlsym(RTLD_NEXT, "epoll_ctl");
  real_clock_gettime = (clock_gettime_fn)dlsym(RTLD_NEXT, "clock_gettime");
}

extern "C" int clock_gettime(clockid_t id, struct timespec* ts)
{
  resolve_real();
  if(!scripting || id != CLOCK_MONOTONIC) return real_clock_gettime(id, ts);
  ts->tv_sec = vnow / 1000; ts->tv_nsec = (vnow % 1000) * 1000000L;
  return 0;
}

extern "C" ssize_t send(int fd, const void* buf, size_t len, int flags)
{
  resolve_real();
  int c = scripting ? clientOfFd(fd) : 0;
  if(!c) return real_send(fd, buf, len, flags);
  char o = 'F'; int k = 0;
  if(sendQn > 0) { o = sendOutcome[0]; k = sendK[0]; --sendQn; for(int i = 0; i < sendQn; ++i) { sendOutcome[i] = sendOutcome[i + 1]; sendK[i] = sendK[i + 1]; } }
  ssize_t ret; int err = 0;
  if(o == 'W') { ret = -1; err = EAGAIN; }
  else if(o == 'E') { ret = -1; err = ECONNRESET; }
  else if(o == 'Z') ret = 0;
  else if(o == 'P') { size_t n = (size_t)k < len ? (size_t)k : len; if(n == 0 && len > 0) n = 1; ret = real_send(fd, buf, n, flags); err = errno; }
  else { ret = real_send(fd, buf, len, flags); err = errno; }
  char os[2] = {o, 0};
  if(ret > 0) wired[c] += ret;
  ev_begin("send"); j_int("c", c); j_int("req", (long long)len); j_str("o", os); j_int("ret", (long long)ret);
  j_bytes("b", (const unsigned char*)buf, ret > 0 ? ret : 0);
  j_int("inwrite", inwrite_c == c ? inwrite_n : 0);
  // fail: the connection failed (anything but success or would-block)
  j_bool("fail", (ret < 0 && err != EAGAIN && err != EWOULDBLOCK) || (ret == 0 && len > 0));
  j_end();
  errno = err;
  return ret;
}

extern "C" int epoll_ctl(int epfd, int op, int fd, struct epoll_event* ev)
{
  resolve_real();
  if(ev && (op == EPOLL_CTL_ADD || op == EPOLL_CTL_MOD) && ev->data.ptr)
  {
    int i; for(i = 0; i < nptr; ++i) if(ptrmap[i].ptr == ev->data.ptr) break;
    if(i == nptr && nptr < 64) ++nptr;
    if(i < 64) { ptrmap[i].ptr = ev->data.ptr; ptrmap[i].fd = fd; }
  }
  return real_epoll_ctl(epfd, op, fd, ev);
}

static void parse_outcome(const char* o);
static void do_interrupt(const char* src)
{
  ev_begin("interrupt"); j_str("src", src); j_end();
  srv->interrupt();
}

extern "C" int epoll_wait(int epfd, struct epoll_event* evs, int maxevents, int timeout)
{
  resolve_real();
  if(!scripting) return real_epoll_wait(epfd, evs, maxevents, timeout);
  struct epoll_event tmp[64];
  int exhausted = stepi >= nsteps;
  const char* st = exhausted ? "X" : steps[stepi++];
  static int exhaustedPolls = 0;
  if(!exhausted) exhaustedPolls = 0;
  else if(++exhaustedPolls > 300)
  {
    // run() keeps polling although an interrupt has been requested again and again: it will never return
    static const char msg[] = "DRIVER-HANG: run() does not return after interrupt()\n";
    (void)!write(2, msg, sizeof(msg) - 1);
    _exit(97);
  }
  // step S: the wait is interrupted by a signal (a handler without SA_RESTART ran): epoll_wait fails with EINTR; run() must go
  // on (it returns only after interrupt())
  if(!exhausted && st[0] == 'S') { ev_begin("pollintr"); j_int("now", vnow); j_end(); errno = EINTR; return -1; }
  if(exhausted) do_interrupt("script");
  // the send outcome of an O/B step applies to the send(s) this step triggers
  sendQn = 0;
  if((st[0] == 'O' || st[0] == 'B') && st[2]) parse_outcome(st + 2);
  int n = real_epoll_wait(epfd, tmp, maxevents < 64 ? maxevents : 64, 0);
  if(n < 0) n = 0;
  // step: T nothing | I<c> readable events of client c | O<c>.. writable events of client c | A everything | X only the interrupt
  int wantC = (st[0] == 'I' || st[0] == 'O' || st[0] == 'B') ? st[1] - '0' : 0;
  if(st[0] == 'L') wantC = 10 + (st[1] - '0');        // L<l>: the listener's readiness (a connection to accept)
  if(st[0] == 'E') wantC = 20 + (st[1] - '0');        // E<e>: the establisher's readiness (connected or failed)
  int out = 0;
  ev_begin("poll"); j_int("now", vnow); j_int("timeout", timeout); j_str("step", st);
  fputs(",\"ready\":[", g_out);
  int first = 1;
  for(int i = 0; i < n; ++i)
  {
    if(!tmp[i].data.ptr) { evs[out++] = tmp[i]; continue; }      // the interrupt eventfd is always real
    int fd = fdOfPtr(tmp[i].data.ptr);
    int c = objOfFd(fd);
    unsigned keep = 0;
    unsigned inBits = tmp[i].events & (EPOLLIN | EPOLLRDHUP | EPOLLHUP | EPOLLERR), outBits = tmp[i].events & EPOLLOUT;
    if(st[0] == 'A') keep = tmp[i].events;
    else if(c && c == wantC && (st[0] == 'L' || st[0] == 'E')) keep = tmp[i].events;
    else if(c && c == wantC)
    {
      if(st[0] == 'I' || st[0] == 'B') keep |= inBits;
      if(st[0] == 'O' || st[0] == 'B') keep |= outBits;
    }
    if(!keep) continue;
    evs[out] = tmp[i]; evs[out].events = keep; ++out;
    fprintf(g_out, "%s[%d,%d]", first ? "" : ",", c, (keep & (EPOLLIN | EPOLLRDHUP | EPOLLHUP | EPOLLERR) ? 1 : 0) | (keep & EPOLLOUT ? 2 : 0));
    first = 0;
  }
  fputc(']', g_out);
  int irq = 0;
  for(int i = 0; i < out; ++i) if(!evs[i].data.ptr) irq = 1;
  if(out == 0 && timeout > 0) vnow += timeout;            // nothing to report: the time-out elapses
  j_int("after", vnow); j_bool("irq", irq);
  j_end();
  return out;
}

// ------------------------------------------------------------------------------------------------- callbacks
static void exec_actions(char* list);

static void pop_actions()
{
  if(cbqn == 0) return;
  char buf[256]; strcpy(buf, cbq[0]);
  --cbqn; for(int i = 0; i < cbqn; ++i) strcpy(cbq[i], cbq[i + 1]);
  exec_actions(buf);
}

static int g_cb_self_client = 0, g_cb_self_timer = 0, g_noread = 0, g_keep = 0;

struct ClientCb : public Server::Client::ICallback
{
  int c;
  virtual void onRead()
  {
    int me = c;
    g_cb_self_client = me; g_cb_self_timer = 0; g_noread = 0;
    int hasActs = cbqn > 0;
    // peek: "noread" must be known before reading; actions run after the read
    if(hasActs && strstr(cbq[0], "noread")) g_noread = 1;
    byte buf[64]; usize size = 0; bool r = false;
    if(!cl[me])
    {
      // a read notification for a client the harness has already removed: logged, judged by the trace specification
      ev_begin("onRead"); j_int("c", me); j_bool("noread", 1); j_bool("r", 0); j_bytes("b", buf, 0); j_int("peek", -3); j_end();
      return;
    }
    // what the kernel holds for this client right now: 1 data, 0 end of stream, -1 nothing, -2 error
    char pk; ssize_t pr = ::recv(clfd[me], &pk, 1, MSG_PEEK | MSG_DONTWAIT);
    int peek = pr > 0 ? 1 : pr == 0 ? 0 : (errno == EAGAIN || errno == EWOULDBLOCK) ? -1 : -2;
    if(!g_noread) r = cl[me]->read(buf, sizeof(buf), size);
    ev_begin("onRead"); j_int("c", me); j_bool("noread", g_noread); j_bool("r", r); j_bytes("b", buf, g_noread ? 0 : (long)size); j_int("peek", peek); j_end();
    pop_actions();
  }
  virtual void onWrite()
  {
    int me = c;
    g_cb_self_client = me; g_cb_self_timer = 0;
    ev_begin("onWrite"); j_int("c", me); j_int("sb", cl[me] ? (long long)cl[me]->getSendBufferSize() : -1); j_end();
    pop_actions();
  }
  virtual void onClosed()
  {
    int me = c;
    g_cb_self_client = me; g_cb_self_timer = 0; g_keep = 0;
    ev_begin("onClosed"); j_int("c", me); j_end();
    if(cbqn > 0 && strstr(cbq[0], "keep")) g_keep = 1;
    pop_actions();
    if(!g_keep && cl[me]) { Server::Client* p = cl[me]; cl[me] = 0; srv->remove(*p); ev_begin("remove"); j_int("c", me); j_str("in", "onClosed"); j_end(); }
  }
};
static int free_client_slot() { for(int c = 1; c <= NC; ++c) if(!cl[c]) return c; return 0; }
struct ListenerCb : public Server::Listener::ICallback
{
  int l;
  virtual Server::Client::ICallback* onAccepted(Server::Client& client, uint32, uint16)
  {
    int me = l;
    g_cb_self_client = 0; g_cb_self_timer = 0;
    int reject = cbqn > 0 && strstr(cbq[0], "reject") != 0;
    int c = reject ? 0 : free_client_slot();
    if(c)
    {
      cl[c] = &client; clfd[c] = (int)client.getSocket().getFileDescriptor(); acc[c] = pacc[c] = wired[c] = pgotn[c] = 0;
      // the harness socket at the other end becomes this client's peer (psend / pread / check work as for a pair)
      delete peer[c]; peer[c] = 0; palias[c] = 0;
      uint32 rip, hip; uint16 rport, hport;
      if(client.getSocket().getPeerName(rip, rport))
        for(int h = 1; h <= NH; ++h)
          if(hs[h] && hs[h]->getSockName(hip, hport) && hport == rport) { palias[c] = hs[h]; hs[h]->setNonBlocking(); }
    }
    g_cb_self_client = c;                    // rmself / writeself / suspendself in the callback act on the new client
    ev_begin("onAccepted"); j_int("l", me); j_int("c", c); j_end();
    pop_actions();
    return (c && cl[c]) ? ccb[c] : 0;      // a null callback makes the server drop the client (also when it was removed just now)
  }
};
struct EstablisherCb : public Server::Establisher::ICallback
{
  int e;
  virtual Server::Client::ICallback* onConnected(Server::Client& client)
  {
    int me = e;
    g_cb_self_client = 0; g_cb_self_timer = 0;
    int c = free_client_slot();
    if(c) { cl[c] = &client; clfd[c] = (int)client.getSocket().getFileDescriptor(); acc[c] = pacc[c] = wired[c] = pgotn[c] = 0; delete peer[c]; peer[c] = 0; palias[c] = 0; }
    g_cb_self_client = c;
    estfd[me] = -1;                        // the establisher's socket now belongs to the client
    ev_begin("onConnected"); j_int("e", me); j_int("c", c); j_end();
    int keep = cbqn > 0 && strstr(cbq[0], "keep") != 0;
    pop_actions();
    if(!keep && est[me]) { Server::Establisher* p = est[me]; est[me] = 0; srv->remove(*p); ev_begin("rmconn"); j_int("e", me); j_str("in", "cb"); j_end(); }
    return (c && cl[c]) ? ccb[c] : 0;
  }
  virtual void onAbolished()
  {
    int me = e;
    g_cb_self_client = 0; g_cb_self_timer = 0;
    estfd[me] = -1;
    ev_begin("onAbolished"); j_int("e", me); j_end();
    int keep = cbqn > 0 && strstr(cbq[0], "keep") != 0;
    pop_actions();
    if(!keep && est[me]) { Server::Establisher* p = est[me]; est[me] = 0; srv->remove(*p); ev_begin("rmconn"); j_int("e", me); j_str("in", "cb"); j_end(); }
  }
};
struct TimerCb : public Server::Timer::ICallback
{
  int t;
  virtual void onActivated()
  {
    int me = t;
    g_cb_self_client = 0; g_cb_self_timer = me;
    ev_begin("fired"); j_int("t", me); j_int("now", vnow); j_end();
    pop_actions();
  }
};

// ------------------------------------------------------------------------------------------------- operations
static void parse_outcome(const char* o)
{
  if(sendQn < MAXQ) { sendOutcome[sendQn] = o[0]; sendK[sendQn] = o[0] == 'P' ? atoi(o + 1) : 0; ++sendQn; }
}

static void op_pair(int c, const char* in)
{
  if(c < 1 || c > NC || cl[c]) { ev_begin("nop"); j_end(); return; }
  delete peer[c];
  palias[c] = 0;
  peer[c] = new Socket;
  cl[c] = srv->pair(*ccb[c], *peer[c]);
  clfd[c] = cl[c] ? (int)cl[c]->getSocket().getFileDescriptor() : -1;
  if(cl[c]) peer[c]->setNonBlocking();
  acc[c] = pacc[c] = wired[c] = pgotn[c] = 0;
  ev_begin("pair"); j_int("c", c); j_bool("ok", cl[c] != 0); j_str("in", in); j_end();
}
static void op_write(int c, int n, const char* o, const char* in)
{
  if(c < 1 || c > NC || !cl[c]) { ev_begin("nop"); j_end(); return; }
  unsigned char* d = (unsigned char*)malloc(n ? n : 1);
  for(int i = 0; i < n; ++i) d[i] = (unsigned char)((acc[c] + i) % 251);
  sendQn = 0; parse_outcome(o);
  usize postponed = 12345;
  inwrite_c = c; inwrite_n = n;
  bool r = cl[c]->write(d, n, &postponed);
  inwrite_c = 0; inwrite_n = 0;
  sendQn = 0;
  free(d);
  if(r) acc[c] += n;
  ev_begin("write"); j_int("c", c); j_int("n", n); j_str("o", o); j_bool("r", r); j_int("post", (long long)postponed);
  j_int("sb", (long long)cl[c]->getSendBufferSize()); j_bool("susp", cl[c]->isSuspended()); j_str("in", in); j_end();
}
static void op_remove(int c, const char* in)
{
  if(c < 1 || c > NC || !cl[c]) { ev_begin("nop"); j_end(); return; }
  Server::Client* p = cl[c]; cl[c] = 0;
  srv->remove(*p);
  ev_begin("remove"); j_int("c", c); j_str("in", in); j_end();
}
static void op_susp(int c, int on, const char* in)
{
  if(c < 1 || c > NC || !cl[c]) { ev_begin("nop"); j_end(); return; }
  if(on) cl[c]->suspend(); else cl[c]->resume();
  ev_begin(on ? "suspend" : "resume"); j_int("c", c); j_bool("susp", cl[c]->isSuspended()); j_int("sb", (long long)cl[c]->getSendBufferSize()); j_str("in", in); j_end();
}
static void op_timer(int t, long iv, const char* in)
{
  if(t < 1 || t > NT || tm[t]) { ev_begin("nop"); j_end(); return; }
  tm[t] = srv->time(iv, *tcb[t]);
  ev_begin("timer"); j_int("t", t); j_int("iv", iv); j_int("now", vnow); j_str("in", in); j_end();
}
static void op_rmtimer(int t, const char* in)
{
  if(t < 1 || t > NT || !tm[t]) { ev_begin("nop"); j_end(); return; }
  Server::Timer* p = tm[t]; tm[t] = 0;
  srv->remove(*p);
  ev_begin("rmtimer"); j_int("t", t); j_str("in", in); j_end();
}

// actions inside a callback: "rmtimer 2;write 1 3 F;rmself;noread;keep;interrupt;timer 3 5;suspend 1;resume 1;remove 2"
static void exec_actions(char* list)
{
  char* save = 0;
  for(char* a = strtok_r(list, ";", &save); a; a = strtok_r(0, ";", &save))
  {
    char w[8][32]; int n = sscanf(a, "%31s %31s %31s %31s", w[0], w[1], w[2], w[3]);
    if(n < 1) continue;
    if(!strcmp(w[0], "rmtimer") && n >= 2) op_rmtimer(atoi(w[1]), "cb");
    else if(!strcmp(w[0], "timer") && n >= 3) op_timer(atoi(w[1]), atol(w[2]), "cb");
    else if(!strcmp(w[0], "remove") && n >= 2) op_remove(atoi(w[1]), "cb");
    else if(!strcmp(w[0], "rmself")) { if(g_cb_self_timer) op_rmtimer(g_cb_self_timer, "cb"); else if(g_cb_self_client) op_remove(g_cb_self_client, "cb"); }
    else if(!strcmp(w[0], "write") && n >= 4) op_write(atoi(w[1]), atoi(w[2]), w[3], "cb");
    else if(!strcmp(w[0], "writeself") && n >= 3) { if(g_cb_self_client) op_write(g_cb_self_client, atoi(w[1]), w[2], "cb"); }
    else if(!strcmp(w[0], "suspendself")) { if(g_cb_self_client) op_susp(g_cb_self_client, 1, "cb"); }
    else if(!strcmp(w[0], "resumeself")) { if(g_cb_self_client) op_susp(g_cb_self_client, 0, "cb"); }
    else if(!strcmp(w[0], "suspend") && n >= 2) op_susp(atoi(w[1]), 1, "cb");
    else if(!strcmp(w[0], "resume") && n >= 2) op_susp(atoi(w[1]), 0, "cb");
    else if(!strcmp(w[0], "interrupt")) do_interrupt("cb");
    else if(!strcmp(w[0], "rmlisten") && n >= 2) { int l = atoi(w[1]); if(l >= 1 && l <= NLS && lst[l]) { Server::Listener* p = lst[l]; lst[l] = 0; srv->remove(*p); ev_begin("rmlisten"); j_int("l", l); j_str("in", "cb"); j_end(); } }
    else if(!strcmp(w[0], "rmconn") && n >= 2) { int e = atoi(w[1]); if(e >= 1 && e <= NES && est[e]) { Server::Establisher* p = est[e]; est[e] = 0; srv->remove(*p); ev_begin("rmconn"); j_int("e", e); j_str("in", "cb"); j_end(); } }
    else if(!strcmp(w[0], "reject")) {}
    else if(!strcmp(w[0], "noread") || !strcmp(w[0], "keep") || !strcmp(w[0], "nop")) {}
  }
}

void drv_init(int, char**)
{
  for(int c = 1; c <= NC; ++c) { ccb[c] = new ClientCb; ccb[c]->c = c; }
  for(int t = 1; t <= NT; ++t) { tcb[t] = new TimerCb; tcb[t]->t = t; }
  for(int l = 1; l <= NLS; ++l) { lcb[l] = new ListenerCb; lcb[l]->l = l; }
  for(int e = 1; e <= NES; ++e) { ecb[e] = new EstablisherCb; ecb[e]->e = e; }
  g_op_timeout = 20;
}
void drv_fini()
{
  scripting = 0;
  delete srv; srv = 0;
  for(int c = 1; c <= NC; ++c) { cl[c] = 0; delete peer[c]; peer[c] = 0; palias[c] = 0; clfd[c] = -1; }
  for(int t = 1; t <= NT; ++t) tm[t] = 0;
  for(int l = 1; l <= NLS; ++l) { lst[l] = 0; lstfd[l] = -1; }
  for(int e = 1; e <= NES; ++e) { est[e] = 0; estfd[e] = -1; }
  for(int h = 1; h <= NH; ++h) { delete hs[h]; hs[h] = 0; }
  nptr = 0; sendQn = 0; cbqn = 0; nsteps = stepi = 0;
}
void drv_reset()
{
  drv_fini();
  g_reset_line = g_lineno;
  vnow = 1000;
  scripting = 1;
  srv = new Server;
}

void drv_apply(const char* op)
{
  if(!strcmp(op, "pair")) op_pair((int)tok_int(), "top");
  else if(!strcmp(op, "write")) { int c = (int)tok_int(); int n = (int)tok_int(); const char* o = tok_next(); op_write(c, n, o ? o : "F", "top"); }
  else if(!strcmp(op, "remove")) op_remove((int)tok_int(), "top");
  else if(!strcmp(op, "suspend")) op_susp((int)tok_int(), 1, "top");
  else if(!strcmp(op, "resume")) op_susp((int)tok_int(), 0, "top");
  else if(!strcmp(op, "timer")) { int t = (int)tok_int(); long iv = tok_int(); op_timer(t, iv, "top"); }
  else if(!strcmp(op, "rmtimer")) op_rmtimer((int)tok_int(), "top");
  else if(!strcmp(op, "advance")) { long ms = tok_int(); vnow += ms; ev_begin("advance"); j_int("ms", ms); j_int("now", vnow); j_end(); }
  else if(!strcmp(op, "interrupt")) do_interrupt("op");
  else if(!strcmp(op, "psend"))
  {
    int c = (int)tok_int(); int n = (int)tok_int();
    if(c < 1 || c > NC || !pr(c) || !pr(c)->isOpen()) { ev_begin("nop"); j_end(); return; }
    unsigned char d[256]; if(n > 256) n = 256;
    for(int i = 0; i < n; ++i) d[i] = (unsigned char)((pacc[c] + i) % 241);
    ssize r = pr(c)->send(d, n);
    if(r > 0) pacc[c] += r;
    ev_begin("psend"); j_int("c", c); j_int("n", n); j_int("ret", (long long)r); j_end();
  }
  else if(!strcmp(op, "pread"))
  {
    int c = (int)tok_int(); int n = (int)tok_int();
    if(c < 1 || c > NC || !pr(c) || !pr(c)->isOpen()) { ev_begin("nop"); j_end(); return; }
    unsigned char d[4096]; if(n > 4096) n = 4096;
    ssize r = pr(c)->recv(d, n);
    if(r > 0) pgotn[c] += r;
    ev_begin("pread"); j_int("c", c); j_int("ret", (long long)r); j_bytes("b", d, r > 0 ? r : 0); j_end();
  }
  else if(!strcmp(op, "check"))
  {
    // end-of-history completeness probe: the peer reads everything the kernel holds, then the backlog is reported
    int c = (int)tok_int();
    if(c < 1 || c > NC || !cl[c] || !pr(c) || !pr(c)->isOpen()) { ev_begin("nop"); j_end(); return; }
    unsigned char d[8192];
    for(;;)
    {
      if(palias[c])
      {
        // a TCP peer (accepted client): small segments may still be on their way (Nagle / delayed ACK): wait for them
        struct pollfd pfd; pfd.fd = (int)palias[c]->getFileDescriptor(); pfd.events = POLLIN; pfd.revents = 0;
        if(pgotn[c] >= wired[c] || ::poll(&pfd, 1, 1000) <= 0) break;      // nothing in flight / nothing arrives any more
      }
      ssize r = pr(c)->recv(d, sizeof(d));
      if(r <= 0) break;
      pgotn[c] += r;
      ev_begin("pread"); j_int("c", c); j_int("ret", (long long)r); j_bytes("b", d, r); j_end();
    }
    ev_begin("check"); j_int("c", c); j_int("sb", (long long)cl[c]->getSendBufferSize()); j_bool("drained", 1); j_end();
  }
  else if(!strcmp(op, "clear"))
  {
    // Server::clear(): everything registered is dropped at once (top level only); the server is used again afterwards
    srv->clear();
    for(int c = 1; c <= NC; ++c) { cl[c] = 0; clfd[c] = -1; palias[c] = 0; }
    for(int t = 1; t <= NT; ++t) tm[t] = 0;
    for(int l = 1; l <= NLS; ++l) { lst[l] = 0; lstfd[l] = -1; }
    for(int e = 1; e <= NES; ++e) { est[e] = 0; estfd[e] = -1; }
    cbqn = 0;
    ev_begin("clear"); j_end();
  }
  else if(!strcmp(op, "pclose"))
  {
    int c = (int)tok_int();
    if(c < 1 || c > NC || !pr(c) || !pr(c)->isOpen()) { ev_begin("nop"); j_end(); return; }
    pr(c)->close();
    ev_begin("pclose"); j_int("c", c); j_end();
  }
  else if(!strcmp(op, "listen"))
  {
    int l = (int)tok_int();
    if(l < 1 || l > NLS || lst[l]) { ev_begin("nop"); j_end(); return; }
    lst[l] = srv->listen(Socket::loopbackAddress, 0, *lcb[l]);
    lstfd[l] = lst[l] ? (int)((Socket*)lst[l])->getFileDescriptor() : -1;
    ev_begin("listen"); j_int("l", l); j_bool("ok", lst[l] != 0); j_end();
  }
  else if(!strcmp(op, "rmlisten"))
  {
    int l = (int)tok_int();
    if(l < 1 || l > NLS || !lst[l]) { ev_begin("nop"); j_end(); return; }
    Server::Listener* p = lst[l]; lst[l] = 0;
    srv->remove(*p);
    ev_begin("rmlisten"); j_int("l", l); j_str("in", "top"); j_end();
  }
  else if(!strcmp(op, "pconnect"))
  {
    // a harness socket connects to listener l (the connection is then waiting to be accepted)
    int h = (int)tok_int(); int l = (int)tok_int();
    uint32 ip; uint16 port;
    if(h < 1 || h > NH || hs[h] || l < 1 || l > NLS || !lst[l] || !((Socket*)lst[l])->getSockName(ip, port)) { ev_begin("nop"); j_end(); return; }
    hs[h] = new Socket;
    bool ok = hs[h]->open() && hs[h]->connect(Socket::loopbackAddress, port);
    ev_begin("pconnect"); j_int("h", h); j_int("l", l); j_bool("ok", ok); j_end();
  }
  else if(!strcmp(op, "hlisten"))
  {
    int h = (int)tok_int();
    if(h < 1 || h > NH || hs[h]) { ev_begin("nop"); j_end(); return; }
    hs[h] = new Socket;
    bool ok = hs[h]->open() && hs[h]->setReuseAddress() && hs[h]->bind(Socket::loopbackAddress, 0) && hs[h]->listen();
    ev_begin("hlisten"); j_int("h", h); j_bool("ok", ok); j_end();
  }
  else if(!strcmp(op, "hclose"))
  {
    int h = (int)tok_int();
    if(h < 1 || h > NH || !hs[h]) { ev_begin("nop"); j_end(); return; }
    for(int c = 1; c <= NC; ++c) if(palias[c] == hs[h]) palias[c] = 0;
    delete hs[h]; hs[h] = 0;
    ev_begin("hclose"); j_int("h", h); j_end();
  }
  else if(!strcmp(op, "conn"))
  {
    // the server connects (asynchronously) to the harness listening socket h; refuse=1: to a port nobody listens on
    int e = (int)tok_int(); int h = (int)tok_int();
    uint32 ip; uint16 port = 0;
    if(e < 1 || e > NES || est[e] || h < 1 || h > NH || !hs[h] || !hs[h]->getSockName(ip, port)) { ev_begin("nop"); j_end(); return; }
    est[e] = srv->connect(Socket::loopbackAddress, port, *ecb[e]);
    estfd[e] = est[e] ? (int)((Socket*)est[e])->getFileDescriptor() : -1;
    ev_begin("conn"); j_int("e", e); j_int("h", h); j_bool("ok", est[e] != 0); j_end();
  }
  else if(!strcmp(op, "connhost"))
  {
    // like conn, but by host name: the server resolves "localhost" on a pool thread and is woken through the same
    // eventfd that interrupt() uses
    int e = (int)tok_int(); int h = (int)tok_int();
    uint32 ip; uint16 port = 0;
    if(e < 1 || e > NES || est[e] || h < 1 || h > NH || !hs[h] || !hs[h]->getSockName(ip, port)) { ev_begin("nop"); j_end(); return; }
    est[e] = srv->connect(String("localhost"), port, *ecb[e]);
    estfd[e] = est[e] ? -2 : -1;
    ev_begin("conn"); j_int("e", e); j_int("h", h); j_bool("ok", est[e] != 0); j_bool("byname", 1); j_end();
  }
  else if(!strcmp(op, "waitresolve"))
  {
    // real time: let the resolver thread finish (it then writes the wake-up eventfd)
    struct timespec ts = {0, 60 * 1000 * 1000}; nanosleep(&ts, 0);
    ev_begin("waitresolve"); j_end();
  }
  else if(!strcmp(op, "rmconn"))
  {
    int e = (int)tok_int();
    if(e < 1 || e > NES || !est[e]) { ev_begin("nop"); j_end(); return; }
    Server::Establisher* p = est[e]; est[e] = 0;
    srv->remove(*p);
    ev_begin("rmconn"); j_int("e", e); j_str("in", "top"); j_end();
  }
  else if(!strcmp(op, "oncb"))
  {
    // rest of the line = action list for the next callback invocation
    while(*g_cur == ' ') ++g_cur;
    char* e = g_cur + strlen(g_cur); while(e > g_cur && (e[-1] == '\n' || e[-1] == ' ')) *--e = 0;
    if(cbqn < MAXQ) { strncpy(cbq[cbqn], g_cur, 255); cbq[cbqn][255] = 0; ++cbqn; }
    ev_begin("oncb"); j_end();
  }
  else if(!strcmp(op, "run"))
  {
    nsteps = 0; stepi = 0; sendQn = 0;
    for(const char* t = tok_next(); t && nsteps < MAXSTEPS; t = tok_next())
    {
      strncpy(steps[nsteps], t, 15); steps[nsteps][15] = 0;
      ++nsteps;
    }
    ev_begin("run"); j_int("now", vnow); j_end();
    srv->run();
    ev_begin("runend"); j_int("now", vnow); j_int("unused", nsteps - stepi); j_end();
    nsteps = stepi = 0; sendQn = 0; cbqn = 0;
  }
  else { fprintf(stderr, "DRIVER-ERROR: unknown op %s\n", op); exit(3); }
}
