// Driver for the extra X04: Socket::Poll (epoll implementation), Socket::inetAddr / inetNtoA, Error's per-thread state.
//
// The real Socket::Poll runs against a thin OS shim that is defined in this executable and therefore takes precedence
// over libc (same technique as harness/server/drv_server.cpp):
//   epoll_create1()  forwarded; the shim starts an empty mirror of the new instance's interest list
//   epoll_ctl()      forwarded to the kernel; on success mirrored (fd -> interest mask, user data)
//   epoll_wait()     SCRIPTED while an execution runs: the readiness of the harness sockets is what the op "ready" said
//                    (never the kernel's), filtered exactly like the kernel does (interest mask, EPOLLERR/EPOLLHUP always
//                    reported); every other descriptor in the interest list (the eventfd of Poll::interrupt) is asked
//                    for its REAL readiness with poll(2).  One call returns at most <b> events (b given by the op "poll")
//                    taken round-robin from the ready descriptors (reported ones move to the tail, like the kernel's
//                    ready list).  It never blocks: with nothing to report it returns 0 = "the time-out elapsed" and
//                    remembers the time-out it was asked to wait.
// Ops (see drv_apply): set, remove, clear, intr, ready, poll, open, close, pollreal | seterr, geterr, setstr, getstr,
// respawn | ntoa, addr, rt.  Operations can be executed by one of two worker threads (th = 1, 2; 0 = the main thread):
// call-level interleaving of threads, every call runs to completion.  "pollreal" is the exception: a worker really
// blocks in the kernel's epoll_wait and the main thread interrupts it.
#include "drv.h"
#include <dlfcn.h>
#include <errno.h>
#include <time.h>
#include <poll.h>
#include <pthread.h>
#include <sys/epoll.h>
#include <sys/socket.h>
#include <nstd/Socket/Socket.hpp>
#include <nstd/Error.hpp>

enum { NS = 4, NW = 2, MAXEP = 8, MAXENT = 16 };

static Socket* sock[NS + 1];
static Socket::Poll* pl = 0;
static unsigned osbits[NS + 1];          // scripted readiness of socket s (raw epoll bits)
static int order[NS + 1];                // round-robin order of the items 0 (= every other descriptor), 1..NS
static int scripting = 0;
static long g_reset_line = 0;

// ------------------------------------------------------------------------------------------------- OS shim
struct Ent { int fd; unsigned events; epoll_data_t data; };
struct Mirror { int epfd; int n; Ent e[MAXENT]; };
static Mirror mir[MAXEP]; static int nmir = 0;
static int oscalls = 0, lastTimeout = 0, lastCount = -1, ctlfail = 0, batchMax = 64;
static char batchLog[512];

typedef int (*epoll_wait_fn)(int, struct epoll_event*, int, int);
typedef int (*epoll_ctl_fn)(int, int, int, struct epoll_event*);
typedef int (*epoll_create1_fn)(int);
static epoll_wait_fn real_epoll_wait = 0;
static epoll_ctl_fn real_epoll_ctl = 0;
static epoll_create1_fn real_epoll_create1 = 0;
static void resolve_real()
{
  if(real_epoll_wait) return;
  real_epoll_wait = (epoll_wait_fn)dlsym(RTLD_NEXT, "epoll_wait");
  real_epoll_ctl = (epoll_ctl_fn)dlsym(RTLD_NEXT, "epoll_ctl");
  real_epoll_create1 = (epoll_create1_fn)dlsym(RTLD_NEXT, "epoll_create1");
}
static Mirror* mirrorOf(int epfd, int create)
{
  for(int i = 0; i < nmir; ++i) if(mir[i].epfd == epfd) return &mir[i];
  if(!create) return 0;
  if(nmir == MAXEP) { fprintf(stderr, "DRIVER-ERROR: too many epoll instances\n"); exit(3); }
  mir[nmir].epfd = epfd; mir[nmir].n = 0;
  return &mir[nmir++];
}
static int sockOfFd(int fd)
{
  for(int s = 1; s <= NS; ++s) if(sock[s] && sock[s]->isOpen() && (int)sock[s]->getFileDescriptor() == fd) return s;
  return 0;
}

extern "C" int epoll_create1(int flags)
{
  resolve_real();
  int fd = real_epoll_create1(flags);
  if(fd >= 0) mirrorOf(fd, 1)->n = 0;          // a new instance (possibly re-using a descriptor number) starts empty
  return fd;
}

extern "C" int epoll_ctl(int epfd, int op, int fd, struct epoll_event* ev)
{
  resolve_real();
  int rc = real_epoll_ctl(epfd, op, fd, ev);
  int err = errno;
  if(rc != 0) { ++ctlfail; errno = err; return rc; }
  Mirror* m = mirrorOf(epfd, 1);
  int i; for(i = 0; i < m->n; ++i) if(m->e[i].fd == fd) break;
  if(op == EPOLL_CTL_DEL) { if(i < m->n) { for(; i + 1 < m->n; ++i) m->e[i] = m->e[i + 1]; --m->n; } }
  else
  {
    if(i == m->n) { if(m->n == MAXENT) { fprintf(stderr, "DRIVER-ERROR: interest list too long\n"); exit(3); } ++m->n; }
    m->e[i].fd = fd; m->e[i].events = ev->events; m->e[i].data = ev->data;
  }
  errno = err;
  return rc;
}

extern "C" int epoll_wait(int epfd, struct epoll_event* evs, int maxevents, int timeout)
{
  resolve_real();
  if(!scripting) return real_epoll_wait(epfd, evs, maxevents, timeout);
  ++oscalls; lastTimeout = timeout;
  Mirror* m = mirrorOf(epfd, 0);
  int out = 0, lim = maxevents < batchMax ? maxevents : batchMax;
  int reported[NS + 1]; for(int k = 0; k <= NS; ++k) reported[k] = 0;
  char* bl = batchLog; *bl = 0;
  for(int oi = 0; oi <= NS && m && out < lim; ++oi)
  {
    int item = order[oi];
    for(int i = 0; i < m->n && out < lim; ++i)
    {
      int s = sockOfFd(m->e[i].fd);
      if(s != item) continue;
      unsigned rev;
      if(s) rev = osbits[s] & (m->e[i].events | EPOLLERR | EPOLLHUP);
      else
      {
        struct pollfd pfd; pfd.fd = m->e[i].fd; pfd.events = POLLIN | POLLOUT; pfd.revents = 0;
        ::poll(&pfd, 1, 0);
        rev = ((pfd.revents & POLLIN) ? EPOLLIN : 0) & m->e[i].events;
      }
      if(!rev) continue;
      evs[out].events = rev; evs[out].data = m->e[i].data; ++out;
      reported[item] = 1;
      bl += sprintf(bl, "%s[%d,%u]", bl == batchLog ? "" : ",", s, rev);
    }
  }
  // reported items move to the tail of the round-robin order
  int no[NS + 1], k = 0;
  for(int oi = 0; oi <= NS; ++oi) if(!reported[order[oi]]) no[k++] = order[oi];
  for(int oi = 0; oi <= NS; ++oi) if(reported[order[oi]]) no[k++] = order[oi];
  for(int oi = 0; oi <= NS; ++oi) order[oi] = no[oi];
  lastCount = out;
  return out;
}

// ------------------------------------------------------------------------------------------------- worker threads
typedef void (*job_fn)(void*);
struct Worker { pthread_t th; pthread_mutex_t mu; pthread_cond_t cv; job_fn fn; void* arg; int state; int alive; };   // state 0 idle, 1 job posted, 2 done
static Worker wk[NW + 1];

static void* worker_main(void* p)
{
  Worker* w = (Worker*)p;
  pthread_mutex_lock(&w->mu);
  for(;;)
  {
    while(w->state != 1) pthread_cond_wait(&w->cv, &w->mu);
    if(!w->fn) { w->state = 2; pthread_cond_broadcast(&w->cv); break; }
    job_fn fn = w->fn; void* arg = w->arg;
    pthread_mutex_unlock(&w->mu);
    fn(arg);
    pthread_mutex_lock(&w->mu);
    w->state = 2;
    pthread_cond_broadcast(&w->cv);
  }
  pthread_mutex_unlock(&w->mu);
  return 0;
}
static void worker_start(int t)
{
  Worker* w = &wk[t];
  pthread_mutex_init(&w->mu, 0); pthread_cond_init(&w->cv, 0);
  w->state = 0; w->fn = 0; w->alive = 1;
  pthread_create(&w->th, 0, worker_main, w);
}
static void worker_post(int t, job_fn fn, void* arg)
{
  Worker* w = &wk[t];
  pthread_mutex_lock(&w->mu);
  w->fn = fn; w->arg = arg; w->state = 1;
  pthread_cond_broadcast(&w->cv);
  pthread_mutex_unlock(&w->mu);
}
static void worker_wait(int t)
{
  Worker* w = &wk[t];
  pthread_mutex_lock(&w->mu);
  while(w->state != 2) pthread_cond_wait(&w->cv, &w->mu);
  w->state = 0;
  pthread_mutex_unlock(&w->mu);
}
static void worker_stop(int t)
{
  Worker* w = &wk[t];
  if(!w->alive) return;
  worker_post(t, 0, 0);
  pthread_join(w->th, 0);
  pthread_mutex_destroy(&w->mu); pthread_cond_destroy(&w->cv);
  w->alive = 0;
}
static void run_on(int t, job_fn fn, void* arg)
{
  if(t <= 0 || t > NW) { fn(arg); return; }
  worker_post(t, fn, arg);
  worker_wait(t);
}

// ------------------------------------------------------------------------------------------------- jobs
struct A { int s; unsigned m; long long t; int api; int r; unsigned u; String* str; Socket::Poll::Event ev; long long ms; };
static void j_set(void* p) { A* a = (A*)p; pl->set(*sock[a->s], a->m); }
static void j_remove(void* p) { A* a = (A*)p; pl->remove(*sock[a->s]); }
static void j_clear(void*) { pl->clear(); }
static void j_intr(void* p) { A* a = (A*)p; a->r = pl->interrupt() ? 1 : 0; }
static long long now_ms() { struct timespec ts; clock_gettime(CLOCK_MONOTONIC, &ts); return ts.tv_sec * 1000LL + ts.tv_nsec / 1000000; }
static void j_poll(void* p)
{
  A* a = (A*)p;
  a->ev.flags = 0xdead; a->ev.socket = (Socket*)8;
  long long t0 = now_ms();
  a->r = pl->poll(a->ev, a->t) ? 1 : 0;
  a->ms = now_ms() - t0;
}
static void j_seterr(void* p) { A* a = (A*)p; if(a->api) Socket::setLastError((int)a->u); else Error::setLastError(a->u); }
static void j_geterr(void* p) { A* a = (A*)p; a->u = a->api ? (unsigned)Socket::getLastError() : Error::getLastError(); }
static void j_setstr(void* p) { A* a = (A*)p; Error::setErrorString(*a->str); }
static void j_getstr(void* p) { A* a = (A*)p; *a->str = a->api ? Error::getErrorString(0x10000) : Error::getErrorString(); }

static int sockIndex(Socket* p)
{
  if(!p) return 0;
  for(int s = 1; s <= NS; ++s) if(sock[s] == p) return s;
  return -1;
}
static void ev_begin(const char* op) { j_begin(op); j_int("ln", g_lineno - g_reset_line); }
// abstract readiness classes of raw epoll bits: 1 readable, 2 writable, 4 peer shut down its sending side, 8 hang-up
static int classOf(unsigned raw)
{
  return ((raw & EPOLLIN) ? 1 : 0) | ((raw & EPOLLOUT) ? 2 : 0) | ((raw & EPOLLRDHUP) ? 4 : 0) | ((raw & EPOLLHUP) ? 8 : 0);
}

void drv_init(int, char**)
{
  for(int s = 0; s <= NS; ++s) sock[s] = 0;
  for(int t = 0; t <= NW; ++t) wk[t].alive = 0;
}
void drv_fini()
{
  scripting = 0;
  delete pl; pl = 0;
  for(int s = 1; s <= NS; ++s) { delete sock[s]; sock[s] = 0; }
  for(int t = 1; t <= NW; ++t) worker_stop(t);
  nmir = 0;
}
void drv_reset()
{
  drv_fini();
  g_reset_line = g_lineno;
  Error::setErrorString(String());             // drops the strings of the threads that no longer exist; main thread: ""
  for(int t = 1; t <= NW; ++t) worker_start(t);
  for(int s = 1; s <= NS; ++s) { sock[s] = new Socket; if(!sock[s]->open()) { fprintf(stderr, "DRIVER-ERROR: cannot open a socket\n"); exit(3); } osbits[s] = 0; }
  for(int k = 0; k <= NS; ++k) order[k] = k;
  ctlfail = 0; batchMax = 64;
  pl = new Socket::Poll;
  scripting = 1;
}

static void log_text(const char* k, const String& s) { j_bytes(k, (const unsigned char*)(const char*)s, (long)s.length()); }

void drv_apply(const char* op)
{
  A a; memset(&a, 0, sizeof(a));
  if(!strcmp(op, "set"))
  {
    a.s = (int)tok_int(); a.m = (unsigned)tok_int(); int th = tok_more() ? (int)tok_int() : 0;
    run_on(th, j_set, &a);
    ev_begin("set"); j_int("s", a.s); j_int("m", a.m); j_int("th", th); j_int("ctlfail", ctlfail); j_end();
  }
  else if(!strcmp(op, "remove"))
  {
    a.s = (int)tok_int(); int th = tok_more() ? (int)tok_int() : 0;
    run_on(th, j_remove, &a);
    ev_begin("remove"); j_int("s", a.s); j_int("th", th); j_int("ctlfail", ctlfail); j_end();
  }
  else if(!strcmp(op, "clear"))
  {
    int th = tok_more() ? (int)tok_int() : 0;
    run_on(th, j_clear, &a);
    ev_begin("clear"); j_int("th", th); j_int("ctlfail", ctlfail); j_end();
  }
  else if(!strcmp(op, "intr"))
  {
    int th = tok_more() ? (int)tok_int() : 0;
    run_on(th, j_intr, &a);
    ev_begin("intr"); j_int("th", th); j_bool("r", a.r); j_end();
  }
  else if(!strcmp(op, "ready"))
  {
    a.s = (int)tok_int(); unsigned raw = (unsigned)tok_int();
    osbits[a.s] = raw;
    ev_begin("ready"); j_int("th", 0); j_int("s", a.s); j_int("b", classOf(raw)); j_int("raw", raw); j_end();
  }
  else if(!strcmp(op, "open") || !strcmp(op, "close"))
  {
    a.s = (int)tok_int();
    if(op[0] == 'o') { if(!sock[a.s]->isOpen()) sock[a.s]->open(); }
    else { sock[a.s]->close(); osbits[a.s] = 0; }
    ev_begin(op); j_int("th", 0); j_int("s", a.s); j_bool("isopen", sock[a.s]->isOpen()); j_end();
  }
  else if(!strcmp(op, "poll"))
  {
    a.t = tok_ll(); batchMax = (int)tok_int(); int th = tok_more() ? (int)tok_int() : 0;
    oscalls = 0; lastTimeout = 0; lastCount = -1; batchLog[0] = 0;
    run_on(th, j_poll, &a);
    ev_begin("poll"); j_int("th", th);
    j_int("thi", a.t >> 31); j_int("tlo", a.t & 0x7fffffffLL); j_int("b", batchMax);
    j_bool("r", a.r); j_int("sock", sockIndex(a.ev.socket)); j_int("f", a.ev.flags);
    j_int("oscalls", oscalls); j_bool("blocked", oscalls > 0 && lastCount == 0); j_int("waited", lastTimeout);
    j_key("batch"); fprintf(g_out, "[%s]", batchLog);
    j_end();
  }
  else if(!strcmp(op, "pollreal"))
  {
    // a worker really blocks in the kernel; the main thread interrupts it after a short delay.  Only without
    // registered sockets (the kernel's view of the harness sockets is not the scripted one): the op clears first.
    int th = (int)tok_int(); a.t = tok_ll(); long delay = tok_int();
    if(th < 1 || th > NW) th = 1;
    pl->clear();
    scripting = 0;
    worker_post(th, j_poll, &a);
    usleep((useconds_t)delay * 1000);
    bool ir = pl->interrupt();
    worker_wait(th);
    scripting = 1;
    ev_begin("pollreal"); j_int("th", th); j_bool("r", a.r); j_bool("ir", ir); j_int("sock", sockIndex(a.ev.socket)); j_int("f", a.ev.flags);
    j_bool("early", a.ms < a.t / 2); j_int("ms", a.ms); j_end();
  }
  else if(!strcmp(op, "seterr"))
  {
    int th = (int)tok_int(); a.u = (unsigned)tok_ll(); a.api = (int)tok_int();
    run_on(th, j_seterr, &a);
    ev_begin("seterr"); j_int("th", th); j_int("code", a.u); j_int("api", a.api); j_end();
  }
  else if(!strcmp(op, "geterr"))
  {
    int th = (int)tok_int(); a.api = (int)tok_int();
    run_on(th, j_geterr, &a);
    ev_begin("geterr"); j_int("th", th); j_int("api", a.api); j_int("code", a.u); j_end();
  }
  else if(!strcmp(op, "setstr"))
  {
    int th = (int)tok_int(); int n; unsigned char* d = tok_bytes(&n, 1);
    String str((const char*)d, (usize)n); a.str = &str;
    run_on(th, j_setstr, &a);
    ev_begin("setstr"); j_int("th", th); j_bytes("t", d, n); j_end();
    free(d);
  }
  else if(!strcmp(op, "getstr"))
  {
    int th = (int)tok_int(); a.api = (int)tok_int();
    String str; a.str = &str;
    run_on(th, j_getstr, &a);
    ev_begin("getstr"); j_int("th", th); j_int("mode", a.api); log_text("t", str); j_end();
  }
  else if(!strcmp(op, "respawn"))
  {
    int th = (int)tok_int();
    if(th >= 1 && th <= NW) { worker_stop(th); worker_start(th); }
    ev_begin("respawn"); j_int("th", th); j_end();
  }
  else if(!strcmp(op, "ntoa") || !strcmp(op, "rt"))
  {
    unsigned hi = (unsigned)tok_int(), lo = (unsigned)tok_int();
    uint32 ip = (hi << 16) | lo;
    String t = Socket::inetNtoA(ip);
    ev_begin(op); j_int("hi", hi); j_int("lo", lo); log_text("t", t);
    if(op[0] == 'r') { uint32 back = Socket::inetAddr(t); j_int("rhi", back >> 16); j_int("rlo", back & 0xffff); }
    j_end();
  }
  else if(!strcmp(op, "addr"))
  {
    int n; unsigned char* d = tok_bytes(&n, 1);
    String t((const char*)d, (usize)n);
    uint16 port = 7;
    uint32 ip = Socket::inetAddr(t, &port);
    ev_begin("addr"); j_bytes("t", d, n); j_int("hi", ip >> 16); j_int("lo", ip & 0xffff); j_int("port", port); j_end();
    free(d);
  }
  else { fprintf(stderr, "DRIVER-ERROR: unknown op %s\n", op); exit(3); }
}
