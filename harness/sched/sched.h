// Cooperative scheduler + pthread model shim: C ABI for scenario translation units (which include nstd headers
// and therefore cannot include <new>/STL).  See sched.cpp.
#pragma once
#ifdef __cplusplus
extern "C" {
#endif
typedef void (*sched_fn)(void*);
// create a managed (non-daemon) thread; may be called from scenario_setup or from a managed thread
int sched_spawn(sched_fn fn, void* arg);
// id of the calling managed thread (1-based), 0 if unmanaged
int sched_self(void);
// log one scenario-level event (a JSON object body without braces, e.g. "\"op\":\"lock\",\"t\":1"); the caller holds
// the baton, so events are totally ordered exactly as the steps really happened
void sched_event(const char* fmt, ...);
// an explicit scheduling point (used by the NSTD_VERIF hooks and by scenarios)
void sched_point(const char* label);
// property-level oracle failure detected by the scenario: recorded in the verdict
void sched_fail(const char* fmt, ...);
// the next pthread_create of a managed thread fails with EAGAIN (and leaves a dangling value in *thread, as glibc does)
void sched_fail_next_create(void);
// the next sem_wait of the calling thread is interrupted once (returns -1 / EINTR before looking at the count)
void sched_intr_next_sem_wait(void);
long long sched_now_ms(void);
// ids of the managed threads that are blocked on a condition variable right now (not yet woken in any way)
int sched_cond_blocked(int* ids, int max);
int sched_param_int(const char* name, int dflt);   // scenario parameters given on the command line as name=value
// hook called by nstd code compiled with -DNSTD_VERIF (Atomic.hpp, Future.cpp, Server.cpp)
void nstd_verif_point(int kind, const volatile void* addr);

// provided by the scenario TU
void scenario_setup(void);     // create objects, spawn threads
void scenario_finish(void);    // all non-daemon threads have finished: final checks (may call sched_fail / sched_event)
#ifdef __cplusplus
}
#endif
